(** Theorems about the term that tools/py2coq.py generates from /repo's CURRENT source of the
    sampling loop of [preprocess.bandsample] (GenSrc.v, regenerated on every run): read with the MiniPy
    semantics it computes the hand-written model [Band.band_loop] and terminates, for every population.
    Compiled against the freshly generated GenSrc.v by every run of C20. *)
From Coq Require Import ZArith List Bool Lia Arith QArith Qcanon.
From PV Require Import MiniPy MiniPyFacts Band BandProofs.
From PVGen Require Import GenSrc.
Import ListNotations.
Open Scope Z_scope.

(** * the sampling loop of preprocess.bandsample *)

Ltac bs_vars := cbv [bandsample_loop_src_v_population bandsample_loop_src_v_step bandsample_loop_src_v_verbose
                     bandsample_loop_src_v_accumulator bandsample_loop_src_v_index bandsample_loop_src_v_sample
                     bandsample_loop_src_v_word bandsample_loop_src_v_freq] in *.

Section BandLoop.
Variable step : Qc.
Variable vb : bool.                      (* verbose *)

Notation v_pop := bandsample_loop_src_v_population.
Notation v_step := bandsample_loop_src_v_step.
Notation v_verbose := bandsample_loop_src_v_verbose.
Notation v_acc := bandsample_loop_src_v_accumulator.
Notation v_index := bandsample_loop_src_v_index.
Notation v_sample := bandsample_loop_src_v_sample.
Notation v_word := bandsample_loop_src_v_word.
Notation v_freq := bandsample_loop_src_v_freq.

(** a population entry [(word, freq)] as a Python tuple; words are arbitrary values *)
Definition enc_entry (e : value * Z) : value := VTuple [fst e; VInt (snd e)].
Definition enc_list (l : list (value * Z)) : value := VList (map enc_entry l).

Definition bs_inv (en : env) (pop : list (value * Z)) (index : nat) (acc : Qc) (sample : list (value * Z)) : Prop :=
  en v_pop = Some (enc_list pop) /\ en v_step = Some (VNum step) /\ en v_verbose = Some (VBool vb) /\
  (exists a, en v_acc = Some a /\ num_of a = Some acc) /\
  en v_index = Some (VInt (Z.of_nat index)) /\ en v_sample = Some (enc_list sample).

Lemma remove_nth_map i (l : list (value * Z)) :
  remove_nth i (map enc_entry l) = map enc_entry (remove_at i l).
Proof.
  revert i. induction l as [|x l IH]; intros i; [destruct i; reflexivity|].
  destruct i as [|i]; cbn [map remove_nth remove_at]; [reflexivity|]. now rewrite IH.
Qed.

Lemma num_of_sub a x : num_of a = Some x -> exists b, bin BSub a (VNum step) = Ok b /\ num_of b = Some (x - step)%Qc.
Proof.
  destruct a; cbn [num_of]; intros H; try discriminate; injection H as <-.
  - eexists. split; reflexivity.
  - eexists. split; reflexivity.
Qed.

Lemma num_of_add_int a x f : num_of a = Some x ->
  exists b, bin BAdd a (VInt f) = Ok b /\ num_of b = Some (x + qc_of_Z f)%Qc.
Proof.
  destruct a; cbn [num_of]; intros H; try discriminate; injection H as <-.
  - eexists. split; [reflexivity|]. cbn [num_of]. f_equal. apply qc_of_Z_plus.
  - eexists. split; reflexivity.
Qed.

Lemma cmp_ge_step a x : num_of a = Some x -> cmp CGe a (VNum step) = Ok (VBool (Band.qc_leb step x)).
Proof.
  destruct a; cbn [num_of]; intros H; try discriminate; injection H as <-; reflexivity.
Qed.

Lemma exec_if_same fuel c s en v : eval en c = Ok v -> exec fuel s en = ONormal en ->
  exec fuel (SIf c s SSkip) en = ONormal en.
Proof. intros Hc Hs. rewrite exec_if, Hc. destruct (truthy v); [exact Hs|apply exec_skip]. Qed.


Definition bs_inner : stmt :=
  SWhile (EAnd (ECmp CGe (EVar v_acc) (EVar v_step)) (ECmp CGe (EVar v_index) (EConst (VInt 1))))
   (SSeq (SAug v_index BSub (EConst (VInt 1)))
   (SSeq (SAppend v_sample (EIndex (EVar v_pop) (EVar v_index)))
   (SSeq (SAug v_acc BSub (EVar v_step))
   (SSeq (SIf (EVar v_verbose) (SSeq (SUnpack2 v_word v_freq (EIndex (EVar v_pop) (EVar v_index))) SSkip) SSkip)
         (SDel v_pop (EVar v_index)))))).

Lemma nth_error_enc (l : list (value * Z)) i e : nth_error l i = Some e ->
  nth_error (map enc_entry l) i = Some (enc_entry e).
Proof. intros H. now rewrite nth_error_map, H. Qed.

Lemma bs_inner_correct : forall index fuel pop acc sample en,
  bs_inv en pop index acc sample -> (index <= length pop)%nat -> (index < fuel)%nat ->
  exists en', exec fuel bs_inner en = ONormal en' /\
    match back_walk step pop index acc sample with
    | (pop', index', acc', sample') => bs_inv en' pop' index' acc' sample' /\ (index' <= length pop')%nat
    end.
Proof.
  induction index as [|i IH]; intros fuel pop acc sample en Hinv Hlen Hfuel.
  - destruct Hinv as (Hpop & Hstep & Hvb & (a & Ha & Hna) & Hidx & Hsam).
    exists en. split.
    + unfold bs_inner. rewrite exec_while. cbn [eval bind]. rewrite Ha, Hstep. cbn [bind].
      rewrite (cmp_ge_step _ _ Hna). cbn [bind truthy].
      destruct (Band.qc_leb step acc); cbn [truthy]; [|reflexivity].
      rewrite Hidx. cbn [bind eval cmp Z.of_nat]. reflexivity.
    + cbn [back_walk]. split; [|exact Hlen]. unfold bs_inv. repeat (split; [assumption|]).
      split; [exists a; split; assumption|]. split; assumption.
  - destruct Hinv as (Hpop & Hstep & Hvb & (a & Ha & Hna) & Hidx & Hsam).
    cbn [back_walk]. unfold entry in *. destruct (Band.qc_leb step acc) eqn:Hge.
    2:{ exists en. split.
        - unfold bs_inner. rewrite exec_while. cbn [eval bind]. rewrite Ha, Hstep. cbn [bind].
          rewrite (cmp_ge_step _ _ Hna). rewrite Hge. cbn [bind truthy]. reflexivity.
        - split; [|exact Hlen]. unfold bs_inv. repeat (split; [assumption|]).
          split; [exists a; split; assumption|]. split; assumption. }
    assert (Hi : (i < length pop)%nat) by lia.
    destruct (nth_error pop i) as [e|] eqn:He; [|apply nth_error_None in He; lia].
    destruct fuel as [|fuel]; [lia|].
    destruct (num_of_sub a acc Hna) as (a' & Hsub & Hna').
    (* the environment after one round of the inner loop *)
    set (en1 := upd (upd (upd en v_index (VInt (Z.of_nat i))) v_sample (enc_list (sample ++ [e]))) v_acc a').
    set (en2 := if vb then upd (upd en1 v_word (fst e)) v_freq (VInt (snd e)) else en1).
    set (en3 := upd en2 v_pop (enc_list (remove_at i pop))).
    assert (Hinv3 : bs_inv en3 (remove_at i pop) i (acc - step)%Qc (sample ++ [e])).
    { unfold bs_inv, en3, en2, en1. bs_vars. destruct vb; cbn [upd Nat.eqb];
        (split; [reflexivity|]); (split; [exact Hstep|]); (split; [exact Hvb|]);
        (split; [exists a'; split; [reflexivity|exact Hna']|]); split; reflexivity. }
    assert (Hlen3 : (i <= length (remove_at i pop))%nat).
    { pose proof (remove_at_length i pop e He) as Hr. unfold entry in *. lia. }
    destruct (IH fuel (remove_at i pop) (acc - step)%Qc (sample ++ [e]) en3 Hinv3 Hlen3 ltac:(lia))
      as (en' & Hex & Hres).
    exists en'. split; [|exact Hres].
    unfold bs_inner. rewrite exec_while. cbn [eval bind]. rewrite Ha, Hstep. cbn [bind].
    rewrite (cmp_ge_step _ _ Hna). rewrite Hge. cbn [bind truthy]. rewrite Hidx. cbn [bind eval cmp].
    assert (E1 : (1 <=? Z.of_nat (S i)) = true) by (apply Z.leb_le; lia). rewrite E1. cbn [truthy].
    fold bs_inner.
    (* index -= 1 *)
    rewrite exec_seq, exec_aug. cbn [step_simple]. rewrite Hidx. cbn [eval bin].
    replace (Z.of_nat (S i) - 1) with (Z.of_nat i) by lia.
    (* sample.append(population[index]) *)
    rewrite exec_seq, exec_append. cbn [step_simple]. bs_vars. cbn [upd Nat.eqb]. rewrite Hsam.
    unfold enc_list at 1. cbn [eval bind upd Nat.eqb]. rewrite Hpop. unfold enc_list at 1. cbn [bind seq_items].
    rewrite map_length. rewrite norm_index_in_range by lia. rewrite (nth_error_enc _ _ _ He).
    (* accumulator -= step *)
    rewrite exec_seq, exec_aug. cbn [step_simple upd Nat.eqb]. rewrite Ha. cbn [eval upd Nat.eqb]. rewrite Hstep.
    rewrite Hsub.
    (* if verbose: word, freq = population[index] *)
    rewrite exec_seq, exec_if. cbn [eval upd Nat.eqb]. rewrite Hvb. cbn [truthy].
    replace (map enc_entry sample ++ [enc_entry e]) with (map enc_entry (sample ++ [e]))
      by (rewrite map_app; reflexivity).
    destruct vb.
    + rewrite exec_seq, exec_unpack2. cbn [step_simple eval bind upd Nat.eqb]. rewrite Hpop.
      unfold enc_list at 1. cbn [bind seq_items]. rewrite map_length. rewrite norm_index_in_range by lia.
      rewrite (nth_error_enc _ _ _ He). unfold enc_entry at 1. cbn [seq_items]. rewrite exec_skip.
      rewrite exec_del. cbn [step_simple upd Nat.eqb]. rewrite Hpop. unfold enc_list at 1. cbn [eval upd Nat.eqb].
      rewrite map_length. rewrite norm_index_in_range by lia. rewrite remove_nth_map.
      exact Hex.
    + rewrite exec_skip.
      rewrite exec_del. cbn [step_simple upd Nat.eqb]. rewrite Hpop. unfold enc_list at 1. cbn [eval upd Nat.eqb].
      rewrite map_length. rewrite norm_index_in_range by lia. rewrite remove_nth_map.
      exact Hex.
Qed.
Definition bs_outer_body : stmt :=
  SSeq (SUnpack2 v_word v_freq (EIndex (EVar v_pop) (EVar v_index)))
  (SSeq (SAug v_acc BAdd (EVar v_freq))
  (SSeq (SIf (EVar v_verbose) SSkip SSkip)
  (SIf (ECmp CGe (EVar v_acc) (EVar v_step))
    (SSeq (SAppend v_sample (ETuple2 (EVar v_word) (EVar v_freq)))
    (SSeq (SAug v_acc BSub (EVar v_step))
    (SSeq (SIf (EVar v_verbose) SSkip SSkip)
    (SSeq (SDel v_pop (EVar v_index))
          bs_inner))))
    (SSeq (SAug v_index BAdd (EConst (VInt 1)))
          (SIf (EAnd (EVar v_verbose) (ECmp CEq (EBin BMod (EVar v_index) (EConst (VInt 1000))) (EConst (VInt 0))))
               (SSeq SSkip SSkip) SSkip))))).

Definition bs_outer : stmt :=
  SWhile (EAnd (ECmp CLe (EConst (VInt 0)) (EVar v_index)) (ECmp CLt (EVar v_index) (ELen (EVar v_pop)))) bs_outer_body.

(** the generated term IS the three initialisations followed by this loop (fails to compile when the source changes shape) *)
Lemma bandsample_loop_src_shape :
  f_body bandsample_loop_src =
  SSeq (SAssign v_acc (EConst (VInt 0))) (SSeq (SAssign v_index (EConst (VInt 0))) (SSeq (SAssign v_sample EEmptyList) bs_outer)).
Proof. reflexivity. Qed.

Lemma exec_if_skip_skip fuel c en v : eval en c = Ok v -> exec fuel (SIf c SSkip SSkip) en = ONormal en.
Proof. intros H. rewrite exec_if, H. destruct (truthy v); apply exec_skip. Qed.

Lemma bs_outer_correct : forall mfuel fuel pop index acc sample en result,
  bs_inv en pop index acc sample -> (index <= length pop)%nat ->
  band_loop mfuel step pop index acc sample = Some result ->
  (mfuel + length pop < fuel)%nat ->
  exists en', exec fuel bs_outer en = ONormal en' /\ en' v_sample = Some (enc_list result).
Proof.
  induction mfuel as [|m IH]; intros fuel pop index acc sample en result Hinv Hlen Hres Hfuel; [discriminate|].
  destruct Hinv as (Hpop & Hstep & Hvb & (a & Ha & Hna) & Hidx & Hsam).
  cbn [band_loop] in Hres. unfold entry in *.
  assert (E0 : (0 <=? Z.of_nat index) = true) by (apply Z.leb_le; lia).
  destruct (nth_error pop index) as [e|] eqn:He.
  2:{ (* index = len(population): the loop is left *)
      apply nth_error_None in He. injection Hres as <-.
      exists en. split; [|exact Hsam].
      unfold bs_outer. rewrite exec_while. cbn [eval bind]. rewrite Hidx. cbn [bind cmp]. rewrite E0. cbn [truthy].
      rewrite Hpop. unfold enc_list at 1. cbn [bind seq_items]. rewrite map_length.
      assert (E1 : (Z.of_nat index <? Z.of_nat (length pop)) = false) by (apply Z.ltb_ge; lia).
      rewrite E1. reflexivity. }
  assert (Hi : (index < length pop)%nat) by (apply nth_error_Some; rewrite He; discriminate).
  destruct fuel as [|fuel]; [lia|].
  destruct (num_of_add_int a acc (snd e) Hna) as (a1 & Hadd & Hna1).
  set (acc1 := (acc + qc_of_Z (snd e))%Qc) in *.
  (* the environment after [word, freq = population[index]; accumulator += freq] *)
  set (en1 := upd (upd (upd en v_word (fst e)) v_freq (VInt (snd e))) v_acc a1).
  assert (Hhead : forall rest,
     exec (S fuel) (SSeq (SUnpack2 v_word v_freq (EIndex (EVar v_pop) (EVar v_index)))
                   (SSeq (SAug v_acc BAdd (EVar v_freq)) (SSeq (SIf (EVar v_verbose) SSkip SSkip) rest))) en
     = exec (S fuel) rest en1).
  { intros rest. rewrite exec_seq, exec_unpack2. cbn [step_simple eval bind]. rewrite Hpop, Hidx.
    unfold enc_list at 1. cbn [bind seq_items]. rewrite map_length. rewrite norm_index_in_range by lia.
    rewrite (nth_error_enc _ _ _ He). unfold enc_entry at 1. cbn [seq_items].
    rewrite exec_seq, exec_aug. cbn [step_simple]. bs_vars. cbn [upd Nat.eqb eval]. rewrite Ha, Hadd.
    rewrite exec_seq. rewrite (exec_if_skip_skip _ _ _ (VBool vb)); [reflexivity|].
    cbn [eval upd Nat.eqb]. rewrite Hvb. reflexivity. }
  assert (Hwhile : exec (S fuel) bs_outer en =
                   match exec (S fuel) bs_outer_body en with ONormal en' => exec fuel bs_outer en' | o => o end).
  { unfold bs_outer at 1. rewrite exec_while. cbn [eval bind]. rewrite Hidx. cbn [bind cmp]. rewrite E0. cbn [truthy].
    rewrite Hpop. unfold enc_list at 1. cbn [bind seq_items]. rewrite map_length.
    assert (E1 : (Z.of_nat index <? Z.of_nat (length pop)) = true) by (apply Z.ltb_lt; lia).
    rewrite E1. cbn [truthy]. reflexivity. }
  rewrite Hwhile. unfold bs_outer_body. rewrite Hhead.
  rewrite exec_if. assert (Hc : eval en1 (ECmp CGe (EVar v_acc) (EVar v_step)) = Ok (VBool (Band.qc_leb step acc1))).
  { unfold en1. bs_vars. cbn [eval bind upd Nat.eqb]. rewrite Hstep. cbn [bind]. apply cmp_ge_step. exact Hna1. }
  rewrite Hc. cbn [truthy].
  destruct (Band.qc_leb step acc1) eqn:Hge.
  - (* the word is taken *)
    destruct (num_of_sub a1 acc1 Hna1) as (a2 & Hsub & Hna2).
    destruct (back_walk step (remove_at index pop) index (acc1 - step)%Qc (sample ++ [e]))
      as [[[pop' index'] acc'] sample'] eqn:Ebw.
    set (en2 := upd (upd (upd en1 v_sample (enc_list (sample ++ [e]))) v_acc a2) v_pop (enc_list (remove_at index pop))).
    assert (Hinv2 : bs_inv en2 (remove_at index pop) index (acc1 - step)%Qc (sample ++ [e])).
    { unfold bs_inv, en2, en1. bs_vars. cbn [upd Nat.eqb].
      (split; [reflexivity|]); (split; [exact Hstep|]); (split; [exact Hvb|]);
      (split; [exists a2; split; [reflexivity|exact Hna2]|]); split; [exact Hidx|reflexivity]. }
    pose proof (remove_at_length index pop e He) as Hrl. unfold entry in *.
    assert (Hlen2 : (index <= length (remove_at index pop))%nat) by (unfold entry in *; lia).
    destruct (bs_inner_correct index (S fuel) (remove_at index pop) (acc1 - step)%Qc (sample ++ [e]) en2 Hinv2 Hlen2
                ltac:(unfold entry in *; lia)) as (en3 & Hex3 & Hres3).
    rewrite Ebw in Hres3. destruct Hres3 as (Hinv3 & Hlen3).
    pose proof (back_walk_measure step index (remove_at index pop) (acc1 - step)%Qc (sample ++ [e])
                  pop' index' acc' sample' Hlen2 Ebw) as (_ & Hmeas & Hle'). unfold entry in *.
    destruct (IH fuel pop' index' acc' sample' en3 result Hinv3 Hlen3 Hres ltac:(unfold entry in *; lia)) as (en' & Hex & Hr).
    exists en'. split; [|exact Hr].
    rewrite exec_seq, exec_append. cbn [step_simple]. unfold en1. bs_vars. cbn [upd Nat.eqb]. rewrite Hsam.
    unfold enc_list at 1. cbn [eval bind upd Nat.eqb].
    replace (map enc_entry sample ++ [VTuple [fst e; VInt (snd e)]]) with (map enc_entry (sample ++ [e]))
      by (rewrite map_app; reflexivity).
    rewrite exec_seq, exec_aug. cbn [step_simple upd Nat.eqb eval]. rewrite Hstep, Hsub.
    rewrite exec_seq. rewrite (exec_if_skip_skip _ _ _ (VBool vb)) by (cbn [eval upd Nat.eqb]; rewrite Hvb; reflexivity).
    rewrite exec_seq, exec_del. cbn [step_simple upd Nat.eqb]. rewrite Hpop. unfold enc_list at 1.
    cbn [eval upd Nat.eqb]. rewrite Hidx. rewrite map_length. rewrite norm_index_in_range by lia.
    rewrite remove_nth_map.
    unfold en2, en1, enc_list in Hex3. bs_vars. cbn [upd Nat.eqb] in Hex3.
    fold bs_inner. rewrite Hex3. exact Hex.
  - (* the word is passed over *)
    set (en2 := upd en1 v_index (VInt (Z.of_nat (S index)))).
    assert (Hinv2 : bs_inv en2 pop (S index) acc1 sample).
    { unfold bs_inv, en2, en1. bs_vars. cbn [upd Nat.eqb].
      (split; [exact Hpop|]); (split; [exact Hstep|]); (split; [exact Hvb|]);
      (split; [exists a1; split; [reflexivity|exact Hna1]|]); split; [reflexivity|exact Hsam]. }
    destruct (IH fuel pop (S index) acc1 sample en2 result Hinv2 ltac:(unfold entry in *; lia) Hres ltac:(unfold entry in *; lia)) as (en' & Hex & Hr).
    exists en'. split; [|exact Hr].
    rewrite exec_seq, exec_aug. cbn [step_simple]. unfold en1. bs_vars. cbn [upd Nat.eqb eval]. rewrite Hidx.
    cbn [bin]. replace (Z.of_nat index + 1) with (Z.of_nat (S index)) by lia.
    rewrite exec_if.
    assert (Hc2 : exists v, eval en2 (EAnd (EVar 2%nat) (ECmp CEq (EBin BMod (EVar 4%nat) (EConst (VInt 1000))) (EConst (VInt 0)))) = Ok v).
    { unfold en2, en1. bs_vars. cbn [eval bind upd Nat.eqb]. rewrite Hvb. cbn [bind truthy].
      destruct vb; [|eexists; reflexivity]. cbn [bin]. eexists. reflexivity. }
    destruct Hc2 as (v2 & Hc2). unfold en2, en1 in Hc2, Hex. bs_vars. rewrite Hc2.
    destruct (truthy v2); exec_norm; exact Hex.
Qed.
End BandLoop.

(** ** the whole fragment, from [accumulator = 0] to the end of the loop *)
Definition bs_env0 (pop : list (value * Z)) (step : Qc) (vb : bool) : env :=
  bind_params (f_params bandsample_loop_src) [enc_list pop; VNum step; VBool vb] (fun _ => None).

Theorem bandsample_loop_src_computes_model : forall pop step vb mfuel fuel result,
  band_loop mfuel step pop 0 0%Qc [] = Some result ->
  (mfuel + length pop < fuel)%nat ->
  exists en', exec fuel (f_body bandsample_loop_src) (bs_env0 pop step vb) = ONormal en' /\
              en' bandsample_loop_src_v_sample = Some (enc_list result).
Proof.
  intros pop step vb mfuel fuel result Hres Hfuel.
  rewrite bandsample_loop_src_shape. exec_norm. cbn [step_simple eval].
  exec_norm. cbn [step_simple eval]. exec_norm. cbn [step_simple eval].
  match goal with |- exists en', exec fuel _ ?E = _ /\ _ => set (en0 := E) end.
  assert (Hinv : bs_inv step vb en0 pop 0%nat 0%Qc []).
  { unfold bs_inv, en0, bs_env0. cbn [f_params bandsample_loop_src bind_params]. bs_vars. cbn [upd Nat.eqb].
    repeat apply conj; try reflexivity.
    exists (VInt 0). split; reflexivity. }
  exact (bs_outer_correct step vb mfuel fuel pop 0%nat 0%Qc [] en0 result Hinv ltac:(lia) Hres Hfuel).
Qed.

(** the source's loop terminates for every population and step, within 3*len+2 loop iterations,
    and leaves in [sample] exactly what the hand-written model [Band.band_loop] computes *)
Theorem bandsample_loop_src_terminates : forall pop step vb fuel,
  (3 * length pop + 1 < fuel)%nat ->
  exists en' result,
    exec fuel (f_body bandsample_loop_src) (bs_env0 pop step vb) = ONormal en' /\
    band_loop (2 * length pop + 1) step pop 0 0%Qc [] = Some result /\
    en' bandsample_loop_src_v_sample = Some (enc_list result).
Proof.
  intros pop step vb fuel Hfuel.
  destruct (band_loop (2 * length pop + 1) step pop 0 0%Qc []) as [result|] eqn:E.
  - destruct (bandsample_loop_src_computes_model pop step vb _ fuel result E ltac:(unfold entry in *; lia)) as (en' & He & Hr).
    exists en', result. repeat split; assumption.
  - exfalso. revert E. apply band_loop_fuel; unfold entry in *; lia.
Qed.
