(** Theorems about the term that tools/py2coq.py generates from /repo's CURRENT source of
    [ndl.slice_list] (GenSrc.v, regenerated on every run): read with the MiniPy semantics it computes
    the hand-written model [Sched.slice_list], for every input, with the fuel bound stated.
    Compiled against the freshly generated GenSrc.v by every run of C02. *)
From Coq Require Import ZArith List Bool Lia Arith.
From PV Require Import MiniPy MiniPyFacts Sched SchedProofs.
From PVGen Require Import GenSrc.
Import ListNotations.
Open Scope Z_scope.

(** * ndl.slice_list *)
Section SliceList.
Variable l : list value.
Variable n : Z.
Hypothesis Hn : 1 <= n.

Let v_list := slice_list_src_v_list.
Let v_n := slice_list_src_v_len_sublists.
Let v_ii := slice_list_src_v_ii.
Let v_seq := slice_list_src_v_seq_list.

Definition sl_loop : stmt :=
  SWhile (ECmp CLt (EVar v_ii) (ELen (EVar v_list)))
    (SSeq (SAppend v_seq (ESlice (EVar v_list) (EVar v_ii) (EBin BAdd (EVar v_ii) (EVar v_n))))
          (SAssign v_ii (EBin BAdd (EVar v_ii) (EVar v_n)))).

Definition sl_inv (en : env) (done : nat) (acc : list value) : Prop :=
  en v_list = Some (VList l) /\ en v_n = Some (VInt n) /\
  en v_ii = Some (VInt (Z.of_nat done)) /\ en v_seq = Some (VList acc).

Lemma chunks_fuel_nil {A} fuel k : @chunks_fuel A fuel k [] = [].
Proof. destruct fuel; reflexivity. Qed.

Lemma sl_loop_correct : forall m fuel done acc en,
  sl_inv en done acc ->
  (length l - done <= m)%nat -> (m < fuel)%nat ->
  exists en', exec fuel sl_loop en = ONormal en' /\
    en' v_seq = Some (VList (acc ++ map VList (chunks_fuel m (Z.to_nat n) (skipn done l)))).
Proof.
  induction m as [|m IH]; intros fuel done acc en (Hl & Hnn & Hii & Hseq) Hm Hf.
  - (* nothing left *)
    assert (Hge : (length l <= done)%nat) by lia.
    unfold sl_loop. rewrite exec_while. cbn [eval bind]. rewrite Hii, Hl. cbn [bind seq_items cmp].
    assert (E : (Z.of_nat done <? Z.of_nat (length l)) = false) by (apply Z.ltb_ge; lia).
    rewrite E. cbn [truthy]. exists en. split; [reflexivity|].
    cbn [chunks_fuel map]. now rewrite app_nil_r.
  - destruct (le_lt_dec (length l) done) as [Hge|Hlt].
    + unfold sl_loop. rewrite exec_while. cbn [eval bind]. rewrite Hii, Hl. cbn [bind seq_items cmp].
      assert (E : (Z.of_nat done <? Z.of_nat (length l)) = false) by (apply Z.ltb_ge; lia).
      rewrite E. cbn [truthy]. exists en. split; [reflexivity|].
      rewrite (skipn_all2 l) by lia. rewrite chunks_fuel_nil. cbn [map]. now rewrite app_nil_r.
    + destruct fuel as [|fuel]; [lia|].
      unfold sl_loop. rewrite exec_while. cbn [eval bind]. rewrite Hii, Hl. cbn [bind seq_items cmp].
      assert (E : (Z.of_nat done <? Z.of_nat (length l)) = true) by (apply Z.ltb_lt; lia).
      rewrite E. cbn [truthy].
      (* the body *)
      rewrite exec_seq, exec_append. cbn [step_simple]. rewrite Hseq. cbn [eval bind]. rewrite Hl, Hii, Hnn.
      cbn [bind bin]. rewrite exec_assign. cbn [step_simple eval bind].
      assert (Hii' : upd en v_seq (VList (acc ++ [VList (slice l (Z.of_nat done) (Z.of_nat done + n))])) v_ii
                     = Some (VInt (Z.of_nat done))).
      { rewrite upd_other; [exact Hii|discriminate]. }
      assert (Hnn' : upd en v_seq (VList (acc ++ [VList (slice l (Z.of_nat done) (Z.of_nat done + n))])) v_n
                     = Some (VInt n)).
      { rewrite upd_other; [exact Hnn|discriminate]. }
      rewrite Hii', Hnn'. cbn [bind bin].
      set (k := Z.to_nat n).
      assert (Hk : Z.of_nat done + n = Z.of_nat (done + k)) by (subst k; lia).
      rewrite Hk.
      set (en2 := upd _ v_ii _).
      fold sl_loop.
      destruct (IH fuel (done + k)%nat (acc ++ [VList (slice l (Z.of_nat done) (Z.of_nat (done + k)))]) en2)
        as (en' & He & Hr).
      * unfold sl_inv, en2. split; [|split; [|split]].
        -- rewrite upd_other by discriminate. rewrite upd_other by discriminate. exact Hl.
        -- rewrite upd_other by discriminate. rewrite upd_other by discriminate. exact Hnn.
        -- apply upd_same.
        -- rewrite upd_other by discriminate. apply upd_same.
      * subst k. lia.
      * lia.
      * exists en'. split; [exact He|]. rewrite Hr. f_equal.
        rewrite <- app_assoc. f_equal. cbn [app].
        assert (Hrest : skipn done l <> []).
        { intros Hnil. apply (f_equal (@length _)) in Hnil. rewrite skipn_length in Hnil. cbn in Hnil. lia. }
        cbn [chunks_fuel]. destruct (skipn done l) eqn:Hsk; [contradiction|].
        cbn [map]. rewrite <- Hsk. subst k.
        assert (H1 : slice l (Z.of_nat done) (Z.of_nat (done + Z.to_nat n)) = firstn (Z.to_nat n) (skipn done l)).
        { rewrite <- Hk. apply slice_drop_take. lia. }
        assert (H2 : skipn (Z.to_nat n) (skipn done l) = skipn (done + Z.to_nat n) l).
        { apply skipn_add. }
        rewrite H1, H2. reflexivity.
Qed.

(** the assertion [len(list_) == len(set(list_))] holds exactly when [distinct l] has the length of [l] *)
Definition no_repeats : Prop := length (distinct l) = length l.

Theorem slice_list_src_computes_model : no_repeats ->
  forall fuel, (length l < fuel)%nat ->
  call fuel slice_list_src [VList l; VInt n] = OReturn (VList (map VList (slice_list l (Z.to_nat n)))).
Proof.
  intros Hnr fuel Hf. unfold call, slice_list_src. cbn [f_body f_params bind_params].
  exec_norm. cbn [eval bind upd Nat.eqb cmp].
  assert (E : (n <? 1) = false) by (apply Z.ltb_ge; lia). rewrite E. cbn [truthy].
  exec_norm. cbn [step_simple eval bind upd Nat.eqb seq_items cmp value_eqb].
  rewrite Hnr, Z.eqb_refl. cbn [truthy].
  exec_norm. cbn [step_simple eval bind].
  exec_norm. cbn [step_simple eval bind].
  set (en0 := upd (upd _ 2%nat _) 3%nat _).
  destruct (sl_loop_correct (length l) fuel 0%nat [] en0) as (en' & He & Hr).
  - unfold sl_inv, en0. split; [|split; [|split]]; reflexivity.
  - lia.
  - exact Hf.
  - unfold sl_loop in He. change v_ii with 2%nat in He. change v_list with 0%nat in He.
    change v_seq with 3%nat in He. change v_n with 1%nat in He.
    rewrite exec_seq. rewrite He. exec_norm. cbn [step_simple eval]. change v_seq with 3%nat in Hr. rewrite Hr. reflexivity.
Qed.
End SliceList.

Theorem slice_list_src_rejects_small_n : forall l n fuel, n < 1 ->
  call fuel slice_list_src [VList l; VInt n] = ORaise ExValue.
Proof.
  intros l n fuel Hn. unfold call, slice_list_src. cbn [f_body f_params bind_params].
  exec_norm. cbn [eval bind upd Nat.eqb cmp].
  assert (E : (n <? 1) = true) by (apply Z.ltb_lt; lia). rewrite E. cbn [truthy].
  exec_norm. reflexivity.
Qed.


(** a list with a repeated element fails the assertion [len(list_) == len(set(list_))] *)
Theorem slice_list_src_rejects_repeats : forall l n fuel, 1 <= n -> length (distinct l) <> length l ->
  call fuel slice_list_src [VList l; VInt n] = ORaise ExAssert.
Proof.
  intros l n fuel Hn Hd. unfold call, slice_list_src. cbn [f_body f_params bind_params].
  exec_norm. cbn [eval bind upd Nat.eqb cmp].
  assert (E : (n <? 1) = false) by (apply Z.ltb_ge; lia). rewrite E. cbn [truthy].
  exec_norm. cbn [step_simple eval bind upd Nat.eqb seq_items cmp value_eqb].
  assert (E2 : (Z.of_nat (length l) =? Z.of_nat (length (distinct l))) = false) by (apply Z.eqb_neq; lia).
  rewrite E2. cbn [truthy]. reflexivity.
Qed.
