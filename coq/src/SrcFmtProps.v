(** Property-style statements about the binary-format constants and the word codec read from /repo's current source
    (GenSrc.v is rewritten by tools/py2coq.py on every run).  Only [exact lemma] and [Print Assumptions], plus
    executable examples (non-vacuity). *)
From Coq Require Import ZArith List Bool Lia.
From PV Require Import Bytes BinFmt BinFmtProofs.
From PVGen Require Import GenSrc SrcFmtProofs.
Import ListNotations.
Open Scope Z_scope.

(** C06: the numbers in the SOURCE (preprocess.py, ndl_parallel.pyx) are the numbers of the model the C06 theorems are
    stated over; writer/reader (Python) and the kernels (Cython) hold the same magic number and version *)
Theorem SRC_fmt_constants_are_model :
  fmt_py_MAGIC_NUMBER_src = MAGIC /\ fmt_py_CURRENT_VERSION_src = VERSION /\
  fmt_k_MAGIC_NUMBER_src = MAGIC /\ fmt_k_CURRENT_VERSION_src = VERSION /\
  fmt_py_CURRENT_VERSION_src = 2048 + fmt_py_CURRENT_VERSION_WITH_FREQ_src /\
  fmt_k_CURRENT_VERSION_src = 2048 + fmt_k_CURRENT_VERSION_WITH_FREQ_src.
Proof. exact src_constants_are_model. Qed.
Print Assumptions SRC_fmt_constants_are_model.

Theorem SRC_fmt_error_codes_are_model :
  fmt_err_NO_ERROR_src = 0 /\ fmt_err_MAGIC_NUMBER_DOES_NOT_MATCH_src = 1 /\
  fmt_err_VERSION_NUMBER_DOES_NOT_MATCH_src = 2 /\ fmt_err_INITIAL_ERROR_CODE_src = 3.
Proof. exact src_error_codes_are_model. Qed.
Print Assumptions SRC_fmt_error_codes_are_model.

(** [x.to_bytes(W, ORDER)] / [int.from_bytes(b, ORDER)] with the width and orders the source names are the model's
    little-endian 32-bit codec, on every integer / byte string *)
Theorem SRC_fmt_to_bytes_is_model : forall n, src_to_bytes n = to_bytes n.
Proof. exact src_to_bytes_is_model. Qed.
Print Assumptions SRC_fmt_to_bytes_is_model.

Theorem SRC_fmt_to_integer_is_model : forall bs, src_to_integer bs = to_integer bs.
Proof. exact src_to_integer_is_model. Qed.
Print Assumptions SRC_fmt_to_integer_is_model.

Theorem SRC_fmt_word_roundtrip : forall n, 0 <= n < two32 -> src_to_integer (src_to_bytes n) = n.
Proof. exact src_word_roundtrip. Qed.
Print Assumptions SRC_fmt_word_roundtrip.

(** the general law behind it: any width, the same byte order on both sides *)
Theorem SRC_fmt_word_roundtrip_any_width : forall w o n,
  0 <= w -> 0 <= n < 256 ^ w -> py_from_bytes o (py_to_bytes w o n) = n.
Proof. exact py_from_to_bytes. Qed.
Print Assumptions SRC_fmt_word_roundtrip_any_width.

(** writer and Python reader, both over the source's constants and helpers: every encodable event list round-trips *)
Theorem SRC_fmt_python_roundtrip : forall es, events_ok es = true -> src_py_read (src_encode es) = RdOk es.
Proof. exact src_python_roundtrip. Qed.
Print Assumptions SRC_fmt_python_roundtrip.

(** the kernels (their own copies of the constants, the error codes of error_codes.pxd) read what Python writes *)
Theorem SRC_fmt_kernel_reads_what_python_writes : forall es, events_ok es = true ->
  k_parse (src_encode es) = KOk es /\ src_k_hdr_error (src_encode es) = fmt_err_NO_ERROR_src.
Proof. exact src_kernel_reads_what_python_writes. Qed.
Print Assumptions SRC_fmt_kernel_reads_what_python_writes.

Theorem SRC_fmt_written_header_accepted : forall r,
  src_k_hdr_error (src_header ++ r) = fmt_err_NO_ERROR_src /\ exists rest, src_py_header (src_header ++ r) = inr rest.
Proof. exact src_written_header_accepted. Qed.
Print Assumptions SRC_fmt_written_header_accepted.

Theorem SRC_fmt_kernel_header_decision_is_model : forall l, src_k_hdr_error l = hdr_error l.
Proof. exact src_k_hdr_error_is_model. Qed.
Print Assumptions SRC_fmt_kernel_header_decision_is_model.

(** non-vacuity: a two-event chunk through the source-level writer and both readers; a big-endian word *)
Example SRC_fmt_example :
  src_py_read (src_encode [([1; 70000], [2]); ([3], [])]) = RdOk [([1; 70000], [2]); ([3], [])] /\
  k_parse (src_encode [([1; 70000], [2]); ([3], [])]) = KOk [([1; 70000], [2]); ([3], [])] /\
  src_k_hdr_error (to_bytes 1 ++ to_bytes fmt_py_CURRENT_VERSION_src) = 1 /\
  py_to_bytes 4 false 258 = [0; 0; 1; 2] /\ py_from_bytes false [0; 0; 1; 2] = 258.
Proof. vm_compute. repeat split; reflexivity. Qed.
