(** Property-style statements about the term generated from /repo's current source of the sampling loop of
    [preprocess.bandsample] (GenSrc.v is rewritten by tools/py2coq.py on every run).  Only [exact lemma] and
    [Print Assumptions], plus an executable example. *)
From Coq Require Import ZArith List Bool QArith Qcanon Lia.
From PV Require Import MiniPy Band BandProofs.
From PVGen Require Import GenSrc SrcBandProofs.
Import ListNotations.
Open Scope Z_scope.

(** C20: the source text of the sampling loop of [preprocess.bandsample] computes [Band.band_loop] - the function
    C20_band_size, C20_band_subset, ... are stated over - for every population (words are arbitrary values,
    frequencies integers), every step and both values of [verbose] *)
Theorem SRC_bandsample_loop_computes_model : forall pop step vb mfuel fuel result,
  band_loop mfuel step pop 0 0%Qc [] = Some result ->
  (mfuel + length pop < fuel)%nat ->
  exists en', exec fuel (f_body bandsample_loop_src) (bs_env0 pop step vb) = ONormal en' /\
              en' bandsample_loop_src_v_sample = Some (enc_list result).
Proof. exact bandsample_loop_src_computes_model. Qed.
Print Assumptions SRC_bandsample_loop_computes_model.

(** the "terminates for every population" clause of C20, for the source's own loop: at most 3*len+2 iterations
    (outer and inner loop together), never an exception *)
Theorem SRC_bandsample_loop_terminates : forall pop step vb fuel,
  (3 * length pop + 1 < fuel)%nat ->
  exists en' result,
    exec fuel (f_body bandsample_loop_src) (bs_env0 pop step vb) = ONormal en' /\
    band_loop (2 * length pop + 1) step pop 0 0%Qc [] = Some result /\
    en' bandsample_loop_src_v_sample = Some (enc_list result).
Proof. exact bandsample_loop_src_terminates. Qed.
Print Assumptions SRC_bandsample_loop_terminates.

(** executable example: the interpreter on the generated term *)
Definition ex_pop : list (value * Z) := [(VStr [97], 1); (VStr [98], 2); (VStr [99], 3); (VStr [100], 6)].
Example SRC_bandsample_loop_runs :
  match exec 20 (f_body bandsample_loop_src) (bs_env0 ex_pop (Q2Qc (6 # 1)) false) with
  | ONormal en' => en' bandsample_loop_src_v_sample
  | _ => None
  end = Some (enc_list [(VStr [99], 3); (VStr [100], 6)]).
Proof. vm_compute. reflexivity. Qed.
