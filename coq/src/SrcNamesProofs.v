(** Theorems about the names of the temporary chunk files as tools/py2coq.py reads them from /repo's CURRENT source:
    the template of [create_binary_event_files] ("<prefix>%i<suffix>"), the pattern of its clean-up test and the slice
    [A:-B] from which every learner of ndl.py / wh.py parses the chunk number before sorting.  The sort key applied to
    the name the writer gives chunk i is i, for every i and every sort site.  GenSrc.v is regenerated on every run.
    [int()] of a string that is not a decimal numeral raises in Python; [src_key] is only stated on writer names. *)
From Coq Require Import ZArith List Bool Lia Arith.
From PV Require Import Proto ProtoProofs.
From PVGen Require Import GenSrc.
Import ListNotations.
Open Scope Z_scope.

Definition digit_char (d : nat) : Z := 48 + Z.of_nat d.
Definition char_digit (c : Z) : nat := Z.to_nat (c - 48).

(** ["<prefix>%i<suffix>" % i] *)
Definition src_chunk_name (i : nat) : list Z :=
  fmt_names_prefix_src ++ map digit_char (digits i) ++ fmt_names_suffix_src.

(** [l[a:-b]] for 0 <= a, 0 < b *)
Definition py_slice (a b : Z) (l : list Z) : list Z :=
  firstn (length l - Z.to_nat a - Z.to_nat b) (skipn (Z.to_nat a) l).

(** [int(basename[a:-b])] on a decimal numeral *)
Definition src_key (a b : Z) (name : list Z) : nat := undigits (map char_digit (py_slice a b name)).

Lemma skipn_app_exact {A} (p r : list A) : skipn (length p) (p ++ r) = r.
Proof. induction p as [|x p IH]; [reflexivity|exact IH]. Qed.

Lemma firstn_app_exact {A} (p r : list A) : firstn (length p) (p ++ r) = p.
Proof. induction p as [|x p IH]; cbn [length app firstn]; [reflexivity|now rewrite IH]. Qed.

Lemma py_slice_strips (p m s : list Z) :
  py_slice (Z.of_nat (length p)) (Z.of_nat (length s)) (p ++ m ++ s) = m.
Proof.
  unfold py_slice. rewrite !Nat2Z.id, skipn_app_exact, !app_length.
  replace (length p + (length m + length s) - length p - length s)%nat with (length m) by lia.
  apply firstn_app_exact.
Qed.

Lemma char_digit_char d : char_digit (digit_char d) = d.
Proof. unfold char_digit, digit_char. replace (48 + Z.of_nat d - 48) with (Z.of_nat d) by lia. apply Nat2Z.id. Qed.

Lemma sites_are_prefix_and_suffix a b :
  In a fmt_names_sort_lower_src -> In b fmt_names_sort_upper_neg_src ->
  a = Z.of_nat (length fmt_names_prefix_src) /\ b = Z.of_nat (length fmt_names_suffix_src).
Proof.
  intros Ha Hb.
  assert (H1 : forallb (Z.eqb (Z.of_nat (length fmt_names_prefix_src))) fmt_names_sort_lower_src = true) by reflexivity.
  assert (H2 : forallb (Z.eqb (Z.of_nat (length fmt_names_suffix_src))) fmt_names_sort_upper_neg_src = true) by reflexivity.
  rewrite forallb_forall in H1, H2. split; symmetry; apply Z.eqb_eq; auto.
Qed.

Theorem src_key_inverts_writer_name i a b :
  In a fmt_names_sort_lower_src -> In b fmt_names_sort_upper_neg_src -> src_key a b (src_chunk_name i) = i.
Proof.
  intros Ha Hb. destruct (sites_are_prefix_and_suffix a b Ha Hb) as [-> ->].
  unfold src_key, src_chunk_name. rewrite py_slice_strips, map_map.
  rewrite (map_ext _ (fun d => d) char_digit_char), map_id. apply decimal_roundtrip.
Qed.

Lemma src_sites :
  fmt_names_sort_lower_src <> [] /\ length fmt_names_sort_lower_src = length fmt_names_sort_upper_neg_src /\
  Z.of_nat (length fmt_names_sort_lower_src) = fmt_names_conversions_src /\
  Forall (fun b => 0 < b) fmt_names_sort_upper_neg_src.
Proof.
  split; [discriminate|split; [reflexivity|split; [reflexivity|]]].
  apply Forall_forall. intros b Hb.
  assert (H : forallb (Z.ltb 0) fmt_names_sort_upper_neg_src = true) by reflexivity.
  rewrite forallb_forall in H. apply Z.ltb_lt. now apply H.
Qed.

(** the clean-up of an earlier conversion finds every name the writer can produce *)
Theorem src_cleanup_matches_every_chunk i :
  exists l r, src_chunk_name i = l ++ fmt_names_cleanup_src ++ r.
Proof. exists [], (map digit_char (digits i) ++ fmt_names_suffix_src). reflexivity. Qed.

(** hence distinct chunk numbers give distinct names, and sorting by the key is sorting by chunk number *)
Theorem src_chunk_name_injective i j a b :
  In a fmt_names_sort_lower_src -> In b fmt_names_sort_upper_neg_src -> src_chunk_name i = src_chunk_name j -> i = j.
Proof.
  intros Ha Hb E. rewrite <- (src_key_inverts_writer_name i a b Ha Hb), <- (src_key_inverts_writer_name j a b Ha Hb).
  now rewrite E.
Qed.
