(** Theorems about the constants and the word codec that tools/py2coq.py reads from /repo's CURRENT source of
    [preprocess.py] (MAGIC_NUMBER, CURRENT_VERSION, to_bytes, to_integer), [ndl_parallel.pyx] (the kernels' copies of
    the constants) and [error_codes.pxd] (GenSrc.v, regenerated on every run).  The writer, the Python reader and the
    header decision of the kernels are re-stated over the SOURCE constants and shown to be the hand-written model
    [BinFmt], so that the round-trip theorems of C06 speak about the numbers the source contains now.
    Compiled against the freshly generated GenSrc.v by every run of C06. *)
From Coq Require Import ZArith List Bool Lia.
From PV Require Import Bytes BinFmt BinFmtProofs.
From PVGen Require Import GenSrc.
Import ListNotations.
Open Scope Z_scope.

(** * [int.to_bytes(w, order)] / [int.from_bytes(b, order)] for any width and either byte order *)
Fixpoint le_bytes (w : nat) (n : Z) : list Z :=
  match w with O => [] | S w' => n mod 256 :: le_bytes w' (n / 256) end.

Definition py_to_bytes (w : Z) (little : bool) (n : Z) : list Z :=
  let l := le_bytes (Z.to_nat w) n in if little then l else rev l.

Definition py_from_bytes (little : bool) (bs : list Z) : Z :=
  to_integer (if little then bs else rev bs).

(** the two helpers as the source text defines them *)
Definition src_to_bytes (n : Z) : list Z := py_to_bytes fmt_to_bytes_width_src fmt_to_bytes_little_src n.
Definition src_to_integer (bs : list Z) : Z := py_from_bytes fmt_to_integer_little_src bs.

Lemma le_bytes_length w n : length (le_bytes w n) = w.
Proof. revert n; induction w as [|w IH]; intros n; cbn [le_bytes length]; [reflexivity|now rewrite IH]. Qed.

Lemma to_integer_le_bytes w n : 0 <= n < 256 ^ Z.of_nat w -> to_integer (le_bytes w n) = n.
Proof.
  revert n; induction w as [|w IH]; intros n H.
  - cbn in *. lia.
  - cbn [le_bytes to_integer]. rewrite IH.
    + pose proof (Z.div_mod n 256). lia.
    + rewrite Nat2Z.inj_succ, Z.pow_succ_r in H by lia.
      split; [apply Z.div_pos; lia|apply Z.div_lt_upper_bound; lia].
Qed.

(** any width, same order on both sides: the general word round trip *)
Lemma py_from_to_bytes w o n : 0 <= w -> 0 <= n < 256 ^ w -> py_from_bytes o (py_to_bytes w o n) = n.
Proof.
  intros Hw Hn. unfold py_from_bytes, py_to_bytes.
  assert (E : to_integer (le_bytes (Z.to_nat w) n) = n)
    by (apply to_integer_le_bytes; rewrite Z2Nat.id by exact Hw; exact Hn).
  destruct o; [exact E|now rewrite rev_involutive].
Qed.

Lemma src_to_bytes_is_model n : src_to_bytes n = to_bytes n.
Proof.
  unfold src_to_bytes, py_to_bytes, to_bytes.
  change (Z.to_nat fmt_to_bytes_width_src) with 4%nat.
  change fmt_to_bytes_little_src with true.
  cbn [le_bytes]. rewrite !Z.div_div by lia. reflexivity.
Qed.

Lemma src_to_integer_is_model bs : src_to_integer bs = to_integer bs.
Proof. reflexivity. Qed.

Lemma src_word_roundtrip n : 0 <= n < two32 -> src_to_integer (src_to_bytes n) = n.
Proof. intros H. rewrite src_to_bytes_is_model, src_to_integer_is_model. now apply to_integer_to_bytes. Qed.

(** * the constants *)
Lemma src_constants_are_model :
  fmt_py_MAGIC_NUMBER_src = MAGIC /\ fmt_py_CURRENT_VERSION_src = VERSION /\
  fmt_k_MAGIC_NUMBER_src = MAGIC /\ fmt_k_CURRENT_VERSION_src = VERSION /\
  fmt_py_CURRENT_VERSION_src = 2048 + fmt_py_CURRENT_VERSION_WITH_FREQ_src /\
  fmt_k_CURRENT_VERSION_src = 2048 + fmt_k_CURRENT_VERSION_WITH_FREQ_src.
Proof. repeat split; reflexivity. Qed.

Lemma src_constants_fit :
  fits32 fmt_py_MAGIC_NUMBER_src = true /\ fits32 fmt_py_CURRENT_VERSION_src = true /\
  fmt_py_MAGIC_NUMBER_src <> fmt_py_CURRENT_VERSION_src.
Proof. split; [reflexivity|split; [reflexivity|discriminate]]. Qed.

Lemma src_error_codes_are_model :
  fmt_err_NO_ERROR_src = 0 /\ fmt_err_MAGIC_NUMBER_DOES_NOT_MATCH_src = 1 /\
  fmt_err_VERSION_NUMBER_DOES_NOT_MATCH_src = 2 /\ fmt_err_INITIAL_ERROR_CODE_src = 3.
Proof. repeat split; reflexivity. Qed.

(** * writer and readers over the source constants *)
Definition src_enc_ids (ids : list Z) : list Z :=
  src_to_bytes (Z.of_nat (length ids)) ++ flat_map src_to_bytes ids.
Definition src_enc_event (e : event) : list Z := src_enc_ids (fst e) ++ src_enc_ids (snd e).
Definition src_header : list Z := src_to_bytes fmt_py_MAGIC_NUMBER_src ++ src_to_bytes fmt_py_CURRENT_VERSION_src.
Definition src_encode (es : list event) : list Z :=
  src_header ++ src_to_bytes (Z.of_nat (length es)) ++ flat_map src_enc_event es.

Lemma flat_map_ext' {A B} (f g : A -> list B) l : (forall x, f x = g x) -> flat_map f l = flat_map g l.
Proof. intros H; induction l as [|x l IH]; cbn [flat_map]; [reflexivity|now rewrite H, IH]. Qed.

Lemma src_enc_ids_is_model ids : src_enc_ids ids = enc_ids ids.
Proof.
  unfold src_enc_ids, enc_ids. rewrite src_to_bytes_is_model. f_equal.
  apply flat_map_ext'. exact src_to_bytes_is_model.
Qed.

Lemma src_encode_is_model es : src_encode es = encode es.
Proof.
  unfold src_encode, encode, encode_n, src_header, header, enc_body.
  rewrite !src_to_bytes_is_model.
  change fmt_py_MAGIC_NUMBER_src with MAGIC. change fmt_py_CURRENT_VERSION_src with VERSION.
  f_equal. f_equal.
  apply flat_map_ext'. intros e. unfold src_enc_event, enc_event. now rewrite !src_enc_ids_is_model.
Qed.

(** [read_binary_file] with the source's constants and [to_integer] *)
Definition src_read4 (l : list Z) : Z * list Z := (src_to_integer (firstn 4 l), skipn 4 l).

Definition src_py_header (l : list Z) : rd_result + list Z :=
  let (m, r) := src_read4 l in
  if m =? fmt_py_MAGIC_NUMBER_src then
    let (v, r1) := src_read4 r in
    if v =? fmt_py_CURRENT_VERSION_src then inr r1 else inl RdBadVersion
  else inl RdBadMagic.

Definition src_py_read (l : list Z) : rd_result :=
  match src_py_header l with
  | inl e => e
  | inr r1 => let (n, r2) := src_read4 r1 in RdOk (read_events (Z.to_nat n) r2)
  end.

Lemma src_py_read_is_model l : src_py_read l = py_read l.
Proof.
  unfold src_py_read, src_py_header, py_read, src_read4, read4.
  change fmt_py_MAGIC_NUMBER_src with MAGIC. change fmt_py_CURRENT_VERSION_src with VERSION.
  rewrite !src_to_integer_is_model.
  destruct (_ =? MAGIC); [|reflexivity].
  rewrite !src_to_integer_is_model.
  destruct (_ =? VERSION); reflexivity.
Qed.

(** the header decision of [ndl_parallel.pyx] with the kernels' constants and the error codes of error_codes.pxd *)
Definition src_k_hdr_error (l : list Z) : Z :=
  let (m, r) := read4 l in
  if m =? fmt_k_MAGIC_NUMBER_src then
    let (v, _) := read4 r in
    if v =? fmt_k_CURRENT_VERSION_src then fmt_err_NO_ERROR_src else fmt_err_VERSION_NUMBER_DOES_NOT_MATCH_src
  else fmt_err_MAGIC_NUMBER_DOES_NOT_MATCH_src.

Lemma src_k_hdr_error_is_model l : src_k_hdr_error l = hdr_error l.
Proof.
  unfold src_k_hdr_error, hdr_error, k_parse.
  change fmt_k_MAGIC_NUMBER_src with MAGIC. change fmt_k_CURRENT_VERSION_src with VERSION.
  destruct (read4 l) as [m r]. destruct (m =? MAGIC); [|reflexivity].
  destruct (read4 r) as [v r1]. destruct (v =? VERSION); [|reflexivity].
  destruct (read4 r1) as [n r2]. destruct (k_events _ _ _ _); reflexivity.
Qed.

(** * consequences stated over the source's numbers *)
Theorem src_python_roundtrip es : events_ok es = true -> src_py_read (src_encode es) = RdOk es.
Proof. intros H. rewrite src_py_read_is_model, src_encode_is_model. now apply py_read_encode. Qed.

Theorem src_kernel_reads_what_python_writes es :
  events_ok es = true -> k_parse (src_encode es) = KOk es /\ src_k_hdr_error (src_encode es) = fmt_err_NO_ERROR_src.
Proof.
  intros H. rewrite src_k_hdr_error_is_model, src_encode_is_model. unfold hdr_error.
  rewrite k_parse_encode by exact H. split; reflexivity.
Qed.

(** writer and kernels, writer and reader use the same numbers: a header the Python side writes is never refused,
    whatever follows it *)
Theorem src_written_header_accepted r :
  src_k_hdr_error (src_header ++ r) = fmt_err_NO_ERROR_src /\ exists rest, src_py_header (src_header ++ r) = inr rest.
Proof.
  split.
  - unfold src_k_hdr_error, src_header. rewrite !src_to_bytes_is_model, <- app_assoc.
    rewrite read4_to_bytes by reflexivity.
    change (fmt_py_MAGIC_NUMBER_src =? fmt_k_MAGIC_NUMBER_src) with true. cbv iota.
    rewrite read4_to_bytes by reflexivity. reflexivity.
  - exists r. unfold src_py_header, src_header, src_read4. rewrite !src_to_bytes_is_model, <- app_assoc.
    change (firstn 4 (to_bytes fmt_py_MAGIC_NUMBER_src ++ to_bytes fmt_py_CURRENT_VERSION_src ++ r))
      with (to_bytes fmt_py_MAGIC_NUMBER_src).
    change (skipn 4 (to_bytes fmt_py_MAGIC_NUMBER_src ++ to_bytes fmt_py_CURRENT_VERSION_src ++ r))
      with (to_bytes fmt_py_CURRENT_VERSION_src ++ r).
    rewrite src_to_integer_is_model, to_integer_to_bytes by (unfold two32; cbv; split; congruence).
    rewrite Z.eqb_refl.
    change (firstn 4 (to_bytes fmt_py_CURRENT_VERSION_src ++ r)) with (to_bytes fmt_py_CURRENT_VERSION_src).
    change (skipn 4 (to_bytes fmt_py_CURRENT_VERSION_src ++ r)) with r.
    rewrite src_to_integer_is_model, to_integer_to_bytes by (unfold two32; cbv; split; congruence).
    rewrite Z.eqb_refl. reflexivity.
Qed.
