(** Facts about the STRUCTURE of the chunk readers as tools/py2coq.py finds it in /repo's current source
    ([translate_fmt_shape]: how many functions of ndl_parallel.pyx open a chunk and how many of them perform the
    canonical header check directly after [fopen], the widths of every [fread] / [read], the initial capacities of the
    id buffers, the shape of the header decision of [read_binary_file]).  GenSrc.v is regenerated on every run.
    This group is lenient (a harmless rewrite changes these counts): see DESIGN 2.6. *)
From Coq Require Import ZArith List Bool Lia.
From PV Require Import Bytes BinFmt.
From PVGen Require Import GenSrc.
Import ListNotations.
Open Scope Z_scope.

Lemma src_every_kernel_checks_the_header :
  0 < fmt_k_kernels_src /\ fmt_k_canonical_header_checks_src = fmt_k_kernels_src /\
  fmt_py_reader_header_canonical_src = true.
Proof. split; [reflexivity|split; reflexivity]. Qed.

Lemma src_word_widths_agree :
  Forall (fun w => w = fmt_shape_to_bytes_width_src) (fmt_k_fread_widths_src ++ fmt_py_read_widths_src) /\
  fmt_k_fread_widths_src <> [] /\ fmt_py_read_widths_src <> [].
Proof.
  split; [|split; discriminate].
  apply Forall_forall. intros w Hin.
  assert (H : forallb (Z.eqb fmt_shape_to_bytes_width_src) (fmt_k_fread_widths_src ++ fmt_py_read_widths_src) = true)
    by reflexivity.
  rewrite forallb_forall in H. symmetry. apply Z.eqb_eq. now apply H.
Qed.

Lemma src_initial_capacities_are_model :
  Forall (fun c => c = INITIAL_CAP) fmt_k_initial_caps_src /\
  Z.of_nat (length fmt_k_initial_caps_src) = 2 * fmt_k_kernels_src.
Proof.
  split; [|reflexivity].
  apply Forall_forall. intros c Hin.
  assert (H : forallb (Z.eqb INITIAL_CAP) fmt_k_initial_caps_src = true) by reflexivity.
  rewrite forallb_forall in H. symmetry. apply Z.eqb_eq. now apply H.
Qed.
