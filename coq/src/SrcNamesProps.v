(** Property-style statements about the chunk-file names read from /repo's current source (GenSrc.v is rewritten by
    tools/py2coq.py on every run).  Only [exact lemma] and [Print Assumptions], plus an executable example. *)
From Coq Require Import ZArith List Bool Lia.
From PV Require Import Proto ProtoProofs.
From PVGen Require Import GenSrc SrcNamesProofs.
Import ListNotations.
Open Scope Z_scope.

(** C04: at every sort site of ndl.py / wh.py, the key [int(basename[A:-B])] applied to the name
    [create_binary_event_files] gives chunk i is i - for every i, in particular beyond ten chunks - so the numeric sort
    of [C04_numeric_sort_restores_order] is what the learners perform on the names the conversion writes *)
Theorem SRC_names_sort_key_inverts_writer_name : forall i a b,
  In a fmt_names_sort_lower_src -> In b fmt_names_sort_upper_neg_src -> src_key a b (src_chunk_name i) = i.
Proof. exact src_key_inverts_writer_name. Qed.
Print Assumptions SRC_names_sort_key_inverts_writer_name.

(** every learner call that converts events to chunks is followed by one such numeric sort *)
Theorem SRC_names_sort_sites :
  fmt_names_sort_lower_src <> [] /\ length fmt_names_sort_lower_src = length fmt_names_sort_upper_neg_src /\
  Z.of_nat (length fmt_names_sort_lower_src) = fmt_names_conversions_src /\
  Forall (fun b => 0 < b) fmt_names_sort_upper_neg_src.
Proof. exact src_sites. Qed.
Print Assumptions SRC_names_sort_sites.

Theorem SRC_names_chunk_name_injective : forall i j a b,
  In a fmt_names_sort_lower_src -> In b fmt_names_sort_upper_neg_src -> src_chunk_name i = src_chunk_name j -> i = j.
Proof. exact src_chunk_name_injective. Qed.
Print Assumptions SRC_names_chunk_name_injective.

Theorem SRC_names_cleanup_matches_every_chunk : forall i,
  exists l r, src_chunk_name i = l ++ fmt_names_cleanup_src ++ r.
Proof. exact src_cleanup_matches_every_chunk. Qed.
Print Assumptions SRC_names_cleanup_matches_every_chunk.

(** non-vacuity: chunk 10 and chunk 123 ("events_0_123.dat") *)
Example SRC_names_example :
  src_chunk_name 123 = [101; 118; 101; 110; 116; 115; 95; 48; 95; 49; 50; 51; 46; 100; 97; 116] /\
  map (fun i => src_key 9 4 (src_chunk_name i)) [0; 9; 10; 11; 123]%nat = [0; 9; 10; 11; 123]%nat.
Proof. vm_compute. split; reflexivity. Qed.
