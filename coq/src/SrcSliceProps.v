(** Property-style statements about the term generated from /repo's current source of [ndl.slice_list]
    (GenSrc.v is rewritten by tools/py2coq.py on every run).  Only [exact lemma] and [Print Assumptions],
    plus executable examples (non-vacuity; a smoke test of the MiniPy interpreter on the generated term). *)
From Coq Require Import ZArith List Bool Lia.
From PV Require Import MiniPy Sched SchedProofs.
From PVGen Require Import GenSrc SrcSliceProofs.
Import ListNotations.
Open Scope Z_scope.

(** C02: the source text of [ndl.slice_list], read with the MiniPy semantics, returns [Sched.slice_list] - the function
    the schedule-independence theorems of C02 are stated over - for every list without repeated elements and every
    n >= 1, within [length l + 1] loop iterations *)
Theorem SRC_slice_list_computes_model : forall (l : list value) (n : Z),
  1 <= n -> no_repeats l -> forall fuel, (length l < fuel)%nat ->
  call fuel slice_list_src [VList l; VInt n] = OReturn (VList (map VList (slice_list l (Z.to_nat n)))).
Proof. exact slice_list_src_computes_model. Qed.
Print Assumptions SRC_slice_list_computes_model.

(** hence what the SOURCE returns is a partition of the list into non-empty parts of at most n elements *)
Theorem SRC_slice_list_partition : forall (l : list value) (n : Z),
  1 <= n -> no_repeats l -> forall fuel, (length l < fuel)%nat ->
  exists parts, call fuel slice_list_src [VList l; VInt n] = OReturn (VList (map VList parts)) /\
                concat parts = l /\
                forall part, In part parts -> part <> [] /\ (length part <= Z.to_nat n)%nat.
Proof.
  intros l n Hn Hnr fuel Hf. exists (slice_list l (Z.to_nat n)). split; [|split].
  - apply slice_list_src_computes_model; assumption.
  - apply slice_list_concat. lia.
  - intros part Hin. apply (slice_list_parts l (Z.to_nat n)); [lia|exact Hin].
Qed.
Print Assumptions SRC_slice_list_partition.

Theorem SRC_slice_list_rejects_small_n : forall l n fuel, n < 1 ->
  call fuel slice_list_src [VList l; VInt n] = ORaise ExValue.
Proof. exact slice_list_src_rejects_small_n. Qed.
Print Assumptions SRC_slice_list_rejects_small_n.

Theorem SRC_slice_list_rejects_repeats : forall l n fuel, 1 <= n -> length (distinct l) <> length l ->
  call fuel slice_list_src [VList l; VInt n] = ORaise ExAssert.
Proof. exact slice_list_src_rejects_repeats. Qed.
Print Assumptions SRC_slice_list_rejects_repeats.

(** executable examples: the interpreter on the generated terms *)
Example SRC_slice_list_runs :
  call 10 slice_list_src [VList [VInt 5; VInt 6; VInt 7; VInt 8; VInt 9]; VInt 2]
  = OReturn (VList [VList [VInt 5; VInt 6]; VList [VInt 7; VInt 8]; VList [VInt 9]]).
Proof. vm_compute. reflexivity. Qed.

Example SRC_slice_list_assertion :
  call 10 slice_list_src [VList [VInt 5; VInt 6; VInt 5]; VInt 2] = ORaise ExAssert.
Proof. vm_compute. reflexivity. Qed.

Example SRC_slice_list_out_of_fuel :
  call 2 slice_list_src [VList [VInt 5; VInt 6; VInt 7]; VInt 1] = OFuel.
Proof. vm_compute. reflexivity. Qed.

