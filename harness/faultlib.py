"""Fault matrix shared by C05 (a failed run raises in bounded time) and C17 (no temporary files left, inputs
untouched): learners x fault kinds x positions x byte budgets x n_jobs x chunk sizes."""
from fractions import Fraction

import rwlib
from core import run_models, wr_events, Reader

DEADLINE = 120
LEARNERS = ["dict_ndl", "ndl_threading", "ndl_openmp", "wh_b2r", "wh_r2b", "wh_r2r", "wh_r2r_numpy", "dict_wh"]
CHUNKED = ("ndl_threading", "ndl_openmp", "wh_b2r", "wh_r2b", "wh_r2r")      # learners that write binary chunks

CUES = ["c%d" % i for i in range(6)]
OUTS = ["o%d" % i for i in range(9)]


def base_events(rng, n, single):
    es = []
    for _ in range(n):
        if single:
            es.append([[rng.choice(CUES)], [rng.choice(OUTS)]])
        else:
            es.append([rng.sample(CUES, rng.randint(1, 3)), rng.sample(OUTS, rng.randint(1, 2))])
    return es


def lines_of(es):
    return ["cues\toutcomes"] + ["_".join(c) + "\t" + "_".join(o) for c, o in es]


def table(names, rng, dims=3):
    return {"rows": list(names), "dims": ["d%d" % i for i in range(dims)],
            "values": [[rng.randint(-2, 2) for _ in range(dims)] for _ in names]}


def learner_job(learner, rng, lines, per, n_jobs, pol=0):
    j = {"learner": learner, "lines": lines, "per": per, "n_jobs": n_jobs, "pol": pol,
         "n_outcomes_per_job": rng.choice([1, 2, 10])}
    if learner in ("dict_ndl", "ndl_threading", "ndl_openmp"):
        j.update({"alpha": [1, 8], "beta1": [1, 4], "beta2": [1, 8], "lam": [2, 1]})
    else:
        j["eta"] = [1, 16]
        if learner in ("wh_r2b", "wh_r2r", "wh_r2r_numpy", "dict_wh"):
            j["cue_vectors"] = table(CUES, rng)
        if learner in ("wh_b2r", "wh_r2r", "wh_r2r_numpy", "dict_wh"):
            j["outcome_vectors"] = table(OUTS, rng)
        if learner == "wh_r2r_numpy":
            j["method"] = "numpy"
        j["learner"] = "dict_wh" if learner == "dict_wh" else "wh"
    j["_learner"] = learner
    return j


def chunk_sizes(es, per):
    """sizes in bytes of the chunk files the conversion writes (via the Coq model 401)"""
    no, nc = rwlib.label_sets(es)
    mo = run_models([(401, wr_events(rwlib.events_to_ids(es, no, nc)) + [per, 2])])[0]
    rd = Reader(mo[1:])
    rd.int()
    sizes = {}
    for _ in range(rd.int()):
        k = rd.int()
        sizes[k] = len(rd.list())
    return sizes


def gen_cases(rng, thorough):
    cases = []

    def add(name, job, expect, **extra):
        c = {"name": name, "job": job, "expect": expect}
        c.update(extra)
        cases.append(c)

    learners = LEARNERS if thorough else LEARNERS
    for learner in learners:
        single = learner in ("wh_r2r_numpy", "dict_wh")
        n = rng.randint(6, 10)
        es = base_events(rng, n, single)
        positions = sorted({0, n // 2, n - 1}) if not thorough else list(range(n))
        pers = [2, 3, 10000000] if learner in CHUNKED else [10000000]
        # control: no fault
        add("control", learner_job(learner, rng, lines_of(es), rng.choice(pers), rng.randint(1, 3)), "return",
            learner=learner)
        # control: the calling process has a second (idle) Python thread - a timer, a GUI, a notebook kernel
        j = learner_job(learner, rng, lines_of(es), rng.choice(pers), rng.randint(1, 3))
        j["bystander_thread"] = True
        j["give_tmp"] = rng.random() < 0.5
        add("control_caller_has_a_second_thread", j, "return", learner=learner)
        # duplicate cue under the default policy
        for k in positions:
            es2 = [[list(c), list(o)] for c, o in es]
            es2[k][0] = es2[k][0] + [es2[k][0][0]]
            add("duplicate_cue@%d" % k, learner_job(learner, rng, lines_of(es2), rng.choice(pers), rng.choice([1, 2, 4])),
                "raise", learner=learner)
        if not single:
            k = rng.choice(positions)
            es2 = [[list(c), list(o)] for c, o in es]
            es2[k][1] = es2[k][1] + [es2[k][1][0]]
            add("duplicate_outcome@%d" % k, learner_job(learner, rng, lines_of(es2), rng.choice(pers), 2), "raise",
                learner=learner)
        # malformed lines
        for k in positions:
            kind = rng.choice(["1field", "4fields", "badfreq"])
            ls = lines_of(es)
            c, o = ls[k + 1].split("\t")
            ls[k + 1] = {"1field": c, "4fields": c + "\t" + o + "\t1\tx", "badfreq": c + "\t" + o + "\tmany"}[kind]
            add("malformed_%s@%d" % (kind, k), learner_job(learner, rng, ls, rng.choice(pers), rng.choice([1, 2, 4])),
                "raise", learner=learner)
        # truncated compressed file
        for cut in ([1, 9] if not thorough else [1, 4, 9, 20, 40]):
            j = learner_job(learner, rng, lines_of(es), rng.choice(pers), rng.choice([1, 2]))
            j["truncate"] = cut
            add("truncated_gz-%d" % cut, j, "raise", learner=learner)
        # a cue / an outcome without a vector
        if learner.startswith("wh_") or learner == "dict_wh":
            for k in positions[:2] if not thorough else positions:
                es2 = [[list(c), list(o)] for c, o in es]
                which = "cue" if learner in ("wh_r2b",) or (learner not in ("wh_b2r",) and rng.random() < 0.5) else "outcome"
                if which == "cue":
                    es2[k][0] = ["novector"] if single else es2[k][0] + ["novector"]
                else:
                    es2[k][1] = ["novector"] if single else es2[k][1] + ["novector"]
                add("missing_%s_vector@%d" % (which, k),
                    learner_job(learner, rng, lines_of(es2), rng.choice(pers), rng.choice([1, 2])), "raise",
                    learner=learner)
        # unusable hyper-parameter types
        if learner in ("dict_ndl", "ndl_threading", "ndl_openmp"):
            bads = [("alpha", {"raw": "0.1"}), ("beta1", {"raw": "a"}), ("lam", {"none": 1}), ("alpha", {"raw": [0.1]}),
                    ("beta2", {"none": 1})]
            for key, val in (bads if thorough else rng.sample(bads, 3)):
                j = learner_job(learner, rng, lines_of(es), rng.choice(pers), rng.choice([1, 2, 3]))
                j[key] = val
                add("bad_type_%s=%r" % (key, val), j, "raise", learner=learner)
            if learner == "ndl_threading":
                # many more work items than threads: every worker thread dies on its first item
                j = learner_job(learner, rng, lines_of(es), 10000000, 1)
                j["n_outcomes_per_job"] = 1
                j["alpha"] = {"raw": "0.1"}
                add("bad_type_alpha='0.1' many_work_items", j, "raise", learner=learner)
        else:
            j = learner_job(learner, rng, lines_of(es), rng.choice(pers), 2)
            j["eta"] = {"raw": "0.1"}
            add("bad_type_eta='0.1'", j, "raise", learner=learner)
        # temporary storage runs out while the chunks are written: sweep the byte budget
        if learner in CHUNKED:
            for per in ([2, 10000000] if not thorough else [2, 3, 10000000]):
                sizes = chunk_sizes(es, per)
                biggest = max(sizes.values())
                budgets = sorted({0, 4, 11, 12, 16, biggest // 2, biggest - 4, biggest - 1, biggest, biggest + 64})
                if thorough:
                    budgets = sorted(set(budgets) | set(range(0, biggest + 8, 4)))
                else:
                    budgets = sorted(set(rng.sample(budgets, 5)) | {biggest - 1, biggest})
                for b in budgets:
                    fail_index = rng.choice([None, None] + list(sizes))
                    hit = [k for k, sz in sizes.items() if sz > b and (fail_index is None or k == fail_index)]
                    j = learner_job(learner, rng, lines_of(es), per, rng.choice([1, 2, 4]))
                    j["fsize_limit"] = b
                    j["fail_index"] = fail_index
                    j["delays"] = [rng.choice([0, 0.02]) for _ in range(3)]
                    add("storage_full budget=%d chunk=%r per=%d" % (b, fail_index, per), j,
                        "raise" if hit else "return", learner=learner, chunk_sizes=sizes)
    # generator input (parallel RW learner and dict_ndl)
    for learner in ("ndl_threading", "ndl_openmp", "dict_ndl"):
        es = base_events(rng, 7, False)
        for give_tmp in (True, False):
            j = learner_job(learner, rng, lines_of(es), 10000000, 2)
            j["input"] = "generator"
            j["give_tmp"] = give_tmp
            add("generator_control tmp_given=%s" % give_tmp, j, "return", learner=learner)
            j = learner_job(learner, rng, lines_of(es), 10000000, 2)
            j["input"] = "generator"
            j["give_tmp"] = give_tmp
            j["generator_fails_at"] = rng.choice([0, 3, 6])
            add("generator_raises@%d tmp_given=%s" % (j["generator_fails_at"], give_tmp), j, "raise", learner=learner)
        es2 = [[list(c), list(o)] for c, o in es]
        es2[4][0] = es2[4][0] + [es2[4][0][0]]
        j = learner_job(learner, rng, lines_of(es2), 10000000, 2)
        j["input"] = "generator"
        add("generator_duplicate_cue", j, "raise", learner=learner)
        if learner != "dict_ndl":
            # the storage runs out while the generator is spooled to a text file in the main process:
            # a small spool fails when it is closed, a large one in the middle of a write
            big = base_events(rng, 2500, False)
            for give_tmp in (True, False):
                for evs, budget, expect in ((es, 0, "raise"), (es, 16, "raise"), (big, 1500, "raise"),
                                            (es, 10000000, "return")):
                    if not thorough and (budget == 16) == give_tmp:
                        continue
                    j = learner_job(learner, rng, lines_of(evs), 10000000, 2)
                    j["input"] = "generator"
                    j["give_tmp"] = give_tmp
                    j["spool_fsize_limit"] = budget
                    add("generator_spool_storage_full budget=%d events=%d tmp_given=%s" % (budget, len(evs), give_tmp),
                        j, expect, learner=learner)
    # temporary storage runs out for the WHOLE call (a full disk or a quota does not choose which file it hits): a
    # file-size budget for every file the call writes, in the calling process and in its worker processes.  Small
    # budgets fail early (the semaphores of the pools need 32 bytes), larger ones in the id maps, spool or chunks, large
    # ones not at all: the call raises or returns ("any"), it must end and leave nothing behind.
    budgets = [0, 16, 32, 40, 64, 100, 200, 400, 1000, 4000, 100000]
    for learner in [x for x in LEARNERS if x in CHUNKED]:
        es = base_events(rng, rng.randint(6, 10), False)
        for budget in (budgets if thorough else rng.sample(budgets[2:9], 2) + [rng.choice(budgets[:2] + budgets[9:])]):
            j = learner_job(learner, rng, lines_of(es), rng.choice([2, 3, 10000000]), rng.choice([1, 2]))
            j["process_fsize_limit"] = budget
            j["give_tmp"] = rng.random() < 0.6
            if rng.random() < 0.3:
                j["input"] = "generator"
            add("storage_budget_for_the_whole_call=%d" % budget, j, "any", learner=learner)
    # default (system) temporary directory
    for learner in ("ndl_openmp", "wh_b2r"):
        es = base_events(rng, 6, False)
        j = learner_job(learner, rng, lines_of(es), 2, 2)
        j["give_tmp"] = False
        add("control default_tmp", j, "return", learner=learner)
        es2 = [[list(c), list(o)] for c, o in es]
        es2[3][0] = es2[3][0] + [es2[3][0][0]]
        j = learner_job(learner, rng, lines_of(es2), 2, 2)
        j["give_tmp"] = False
        add("duplicate_cue default_tmp", j, "raise", learner=learner)
    return cases


def run_cases(ctx, cases):
    """run every case in its own killable process; returns list of (status, result) with deadline confirmation"""
    sc = ctx.scratch
    jobs = []
    for c in cases:
        j = {k: v for k, v in c["job"].items() if not k.startswith("_")}
        jobs.append(j)
    results = sc.run_workers("fault_worker", jobs, timeout=DEADLINE, jobs=16, max_timeouts=2)
    return [(status, res, j) for (status, res), j in zip(results, jobs)]


def confirm_timeout(ctx, job):
    """a missed deadline is confirmed by ONE isolated re-run with three times the deadline (nothing else running)"""
    status, res = ctx.scratch.run_worker("fault_worker", job, timeout=3 * DEADLINE)
    if status != "timeout":
        ctx.rep.bump("deadline_retries")
    return status, res


def describe(c):
    j = c["job"]
    return {"case": c["name"], "learner": j["_learner"], "n_jobs": j.get("n_jobs"), "events_per_file": j.get("per"),
            "input": j.get("input", "path"), "lines": j["lines"][:14], "expect": c["expect"],
            "truncate": j.get("truncate"), "fsize_limit": j.get("fsize_limit"), "fail_index": j.get("fail_index")}
