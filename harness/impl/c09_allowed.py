"""The `allowed_symbols` arguments used by the C09 check, shared by the harness (which tabulates them
with CPython for the model) and by the implementation-side worker (which hands them to pyndl).
No pyndl code and no model logic here."""
import re

CALLABLES = {
    "ascii_letters": lambda ch: ('a' <= ch <= 'z') or ('A' <= ch <= 'Z'),
    "isalpha": lambda ch: ch.isalpha(),
    "isalnum_or_dash": lambda ch: ch.isalnum() or ch in "-.",
    "not_vowel": lambda ch: ch not in "aeiouAEIOU",
    "lower_dash_dot": lambda ch: ('a' <= ch <= 'z') or ch in "-.",
}


def make_allowed(spec):
    """spec = ['all'] | ['regex', class_string] | ['callable', name] | ['callable_set', [code points]]"""
    kind = spec[0]
    if kind == "all":
        return "all"
    if kind == "regex":
        return spec[1]
    if kind == "callable":
        return CALLABLES[spec[1]]
    if kind == "callable_set":
        s = set(chr(c) for c in spec[1])
        return lambda ch: ch in s
    raise ValueError(kind)


def allowed_table(spec, chars):
    """the characters of `chars` (an iterable of 1-character strings) that survive the filter,
    computed with CPython's `re` / by calling the callable - the oracle table of the model"""
    a = make_allowed(spec)
    if a == "all":
        return sorted(chars)
    if callable(a):
        return sorted(ch for ch in chars if a(ch))
    pat = re.compile("[^%s]" % a)
    return sorted(ch for ch in chars if pat.sub(" ", ch) == ch)
