"""Widrow-Hoff learners of the scratch pyndl on a batch of jobs (one result per job)."""
import os
import tempfile

import numpy as np

from implutil import main, capture, write_event_file, data_array_cells, weight_dict_cells, fast_poll, from_ratio


def vectors(tbl, dim_name, row_name):
    import xarray as xr
    vals = np.array(tbl["values"], dtype=np.float64).reshape(len(tbl["rows"]), len(tbl["dims"]))
    return xr.DataArray(np.ascontiguousarray(vals), coords=[(row_name, tbl["rows"]), (dim_name, tbl["dims"])])


DIMS = {"b2r": ("outcome_vector_dimensions", "cues"), "r2b": ("outcomes", "cue_vector_dimensions"),
        "r2r": ("outcome_vector_dimensions", "cue_vector_dimensions")}


def run_job(job, wd):
    from pyndl import wh, ndl
    fl = job["flavour"]
    if job.get("no_tables"):
        odim_, cdim_ = "outcomes", "cues"
    cv = vectors(job["cue_vectors"], "cue_vector_dimensions", "cues") if job.get("cue_vectors") else None
    ov = vectors(job["outcome_vectors"], "outcome_vector_dimensions", "outcomes") if job.get("outcome_vectors") else None
    pol = {0: None, 1: True, 2: False}[job.get("pol", 0)]
    eta = from_ratio(job["eta"])
    parts = job["parts"]                      # one or more event lists: chained through weights=
    odim, cdim = DIMS[fl]
    if job.get("no_tables"):
        odim, cdim = "outcomes", "cues"

    def permuted(da):
        # the same labelled table with its rows in reverse order: the same vectors under other row numbers (ids)
        return None if da is None else da[::-1].copy()

    earlier_done = False
    if job.get("earlier_permuted") and job["impl"] != "dict_wh":
        # history: the same event file was learned from in this process just before, with the same options and the same
        # vectors listed in another row order (whatever a call remembers about a file must not survive the call)
        path0 = os.path.join(wd, "ev0.tab.gz")
        write_event_file(path0, [(list(c), list(o)) for c, o in parts[0]])
        try:
            wh.wh(path0, eta, cue_vectors=permuted(cv), outcome_vectors=permuted(ov), method=job["impl"],
                  n_jobs=job.get("n_jobs", 2), n_outcomes_per_job=job.get("n_outcomes_per_job", 2),
                  remove_duplicates=pol, temporary_directory=wd, events_per_temporary_file=job.get("per", 10000000))
        except Exception:       # noqa  (the main call decides)
            pass
        # ... and once more with the very table OBJECTS of the main call holding other numbers, restored in place
        # afterwards (whatever a call remembers about a table must not survive a change of its contents)
        kept = [(da, da.values.copy()) for da in (cv, ov) if da is not None]
        for da, vals in kept:
            da.values[...] = vals[::-1] * 2 + 1
        try:
            wh.wh(path0, eta, cue_vectors=cv, outcome_vectors=ov, method=job["impl"],
                  n_jobs=job.get("n_jobs", 2), n_outcomes_per_job=job.get("n_outcomes_per_job", 2),
                  remove_duplicates=pol, temporary_directory=wd, events_per_temporary_file=job.get("per", 10000000))
        except Exception:       # noqa
            pass
        for da, vals in kept:
            da.values[...] = vals
        earlier_done = True

    def go():
        w = None
        snapshots_ok = True
        for k, events in enumerate(parts):
            cvk, ovk = cv, ov
            if k >= 1 and job.get("cue_vectors2"):
                cvk = vectors(job["cue_vectors2"], "cue_vector_dimensions", "cues")
            if k >= 1 and job.get("outcome_vectors2"):
                ovk = vectors(job["outcome_vectors2"], "outcome_vector_dimensions", "outcomes")
            path = os.path.join(wd, "ev%d.tab.gz" % k)
            if not (k == 0 and earlier_done):          # the file of the earlier call is used as it is (same mtime)
                write_event_file(path, [(list(c), list(o)) for c, o in events])
            before = None if (w is None or job["impl"] == "dict_wh") else (w.values.copy().tobytes(), dict(w.attrs),
                                              {d: list(map(str, w.coords[d].values.tolist())) for d in w.dims})
            if job["impl"] == "dict_wh":
                w2 = wh.dict_wh(path if job.get("as_file", True) else [(list(c), list(o)) for c, o in events],
                                eta, cvk, ovk, weights=w, remove_duplicates=pol)
            else:
                w2 = wh.wh(path, eta, cue_vectors=cvk, outcome_vectors=ovk, method=job["impl"], weights=w,
                           n_jobs=job.get("n_jobs", 2), n_outcomes_per_job=job.get("n_outcomes_per_job", 2),
                           remove_duplicates=pol, temporary_directory=wd,
                           events_per_temporary_file=job.get("per", 10000000))
            if before is not None and job["impl"] != "dict_wh":
                after = (w.values.copy().tobytes(), dict(w.attrs),
                         {d: list(map(str, w.coords[d].values.tolist())) for d in w.dims})
                snapshots_ok = snapshots_ok and before == after
            w = w2
        if job["impl"] == "dict_wh":
            res = weight_dict_cells(w)
        else:
            res = data_array_cells(w, odim=odim, cdim=cdim)
        res["arguments_unchanged"] = snapshots_ok
        return res
    return capture(go)


def handler(payload):
    if payload.get("fast_poll", True):
        fast_poll()
    out = []
    # every job of this process works in the SAME directory path (emptied in between): the files of consecutive calls
    # have the same names and other contents, so anything a call remembers about a path is put to the test
    import shutil
    wd = os.path.join(os.getcwd(), "jobdir")
    for i, job in enumerate(payload["jobs"]):
        shutil.rmtree(wd, ignore_errors=True)
        os.mkdir(wd)
        out.append(run_job(job, wd))
    shutil.rmtree(wd, ignore_errors=True)
    return out


if __name__ == "__main__":
    main(handler)
