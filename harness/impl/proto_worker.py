"""Runs preprocess.create_binary_event_files of the scratch pyndl under a schedule CHOSEN BY THE HARNESS: the name
`multiprocessing` in the namespace of pyndl.preprocess is replaced (test side, no source hook) by a stand-in whose
Pool runs the conversion jobs in this process, one at a time, when the schedule says so.  One schedule entry is one
step of the Coq machine Proto.pstep (model 402):

    -1  Submit      the submitting thread makes one move: it tests its stop flag and submits the next job
                    (apply_async) | finds the job it waits for undelivered (throttle: nothing happens) | finds the
                    stop flag set and leaves the loop (pool.close())
    k   Process k   the pool's result handler delivers job k: the REAL job function runs, then the real callback
                    or error callback (nothing happens if job k was not submitted yet or was delivered before)

Exactly one of the two threads runs at a time.  No model logic here: the worker reports what the real code did
(submissions, deliveries in order, errors in order, the returned number of events or the raised error, the files
left behind) and how many schedule entries it needed."""
import os
import tempfile
import threading
import time
import types

from implutil import main, capture, write_event_file

TURN_TIMEOUT = 30.0


class Sched:
    def __init__(self, schedule):
        self.schedule = list(schedule)
        self.pos = 0
        self.cv = threading.Condition(threading.Lock())
        self.main_state = "running"      # running | parked | joining | done
        self.handler_running = False
        self.free_run = False
        self.exhausted_live = False
        self.stuck = None
        self.shutdown = False
        self.turns = 0

    def _wait(self, cond, who):
        deadline = time.time() + TURN_TIMEOUT
        while True:
            # a Submit entry after the loop was left changes nothing
            while self.pos < len(self.schedule) and self.schedule[self.pos] == -1 and self.main_state == "joining":
                self.pos += 1
            if cond():
                break
            if self.free_run or self.shutdown:
                return False
            if self.pos >= len(self.schedule):
                self.exhausted_live = True
                self.free_run = True
                self.cv.notify_all()
                return False
            if not self.cv.wait(timeout=0.5) and time.time() > deadline:
                self.stuck = "%s waited %.0f s at schedule position %d (next: %r)" % (
                    who, TURN_TIMEOUT, self.pos, self.schedule[self.pos:self.pos + 4])
                self.free_run = True
                self.cv.notify_all()
                return False
        return True

    # the submitting thread: park until the next entry is Submit and the handler is idle
    def main_turn(self):
        with self.cv:
            self.main_state = "parked"
            self.cv.notify_all()
            ok = self._wait(lambda: self.pos < len(self.schedule) and self.schedule[self.pos] == -1
                            and not self.handler_running, "the submitting thread")
            self.main_state = "running"
            if ok:
                self.pos += 1
                self.turns += 1
            return ok

    # the result handler: park until the next entry is Process k and the submitting thread is not running
    def handler_turn(self):
        with self.cv:
            ok = self._wait(lambda: self.pos < len(self.schedule) and self.schedule[self.pos] >= 0
                            and self.main_state in ("parked", "joining"), "the result handler")
            if not ok:
                return None
            k = self.schedule[self.pos]
            self.pos += 1
            self.turns += 1
            self.handler_running = True
            return k

    def handler_done(self, wake_main):
        with self.cv:
            self.handler_running = False
            if wake_main and self.main_state == "joining":
                self.main_state = "running"
            self.cv.notify_all()


def install(sched, log):
    import pyndl.preprocess as pp

    class Result:
        def __init__(self, k):
            self.k = k
            self.done = False
            self.value = None
            self.error = None

        def ready(self):
            # a Submit move that finds the awaited job undelivered changes nothing: the submitting thread stays
            # here, one move per poll, until a move finds it delivered and goes on to the next submission
            while not self.done:
                if sched.free_run:
                    return self.done
                sched.main_turn()
            return True

        # the rest of the AsyncResult interface, in terms of the same moves
        def wait(self, timeout=None):
            self.ready()

        def get(self, timeout=None):
            self.ready()
            if self.error is not None:
                raise self.error
            return self.value

        def successful(self):
            if not self.done:
                raise ValueError("%r not ready" % (self,))
            return self.error is None

    class Pool:
        def __init__(self, n_jobs=None, *a, **kw):
            self.jobs = []                 # (func, kwds, callback, error_callback, Result)
            self.closed = False
            self.thread = threading.Thread(target=self._handler, daemon=True)
            self.thread.start()

        def __enter__(self):
            return self

        def __exit__(self, *a):
            with sched.cv:
                sched.shutdown = True
                sched.main_state = "done"
                sched.cv.notify_all()
            self.thread.join(5)
            return False

        def apply_async(self, func, args=(), kwds=None, callback=None, error_callback=None):
            # one Submit move runs from the end of the previous submission (or poll) to the end of this one, so
            # that the loop's own test of its stop flag happens inside the move, as in the model
            if not self.jobs:
                sched.main_turn()
            if self.closed:
                raise ValueError("Pool not running")
            res = Result(len(self.jobs))
            self.jobs.append((func, kwds or {}, callback, error_callback, res))
            log.append(["submit", res.k])
            sched.main_turn()
            return res

        def close(self):
            log.append(["close", len(self.jobs)])
            self.closed = True

        def terminate(self):
            self.closed = True

        def join(self):
            with sched.cv:
                sched.main_state = "joining"
                sched.cv.notify_all()
                deadline = time.time() + 2 * TURN_TIMEOUT
                while not all(j[4].done for j in self.jobs):
                    if sched.pos >= len(sched.schedule) and not sched.free_run:
                        sched.exhausted_live = True
                        sched.free_run = True
                        sched.cv.notify_all()
                    if not sched.cv.wait(timeout=0.5) and time.time() > deadline:
                        sched.stuck = "join(): jobs %r were never delivered" % (
                            [j[4].k for j in self.jobs if not j[4].done],)
                        break
                sched.main_state = "running"

        def _deliver(self, k):
            func, kwds, cb, ecb, res = self.jobs[k]
            try:
                value = func(**kwds)
            except BaseException as e:  # noqa - what the pool hands to the error callback
                res.error = e
                log.append(["deliver", k, "error", type(e).__name__])
                try:
                    if ecb is not None:
                        ecb(e)
                except BaseException as e2:  # noqa - a raising callback kills the real pool's handler thread
                    log.append(["callback_raised", k, type(e2).__name__])
                    return False
            else:
                res.value = value
                log.append(["deliver", k, "value", int(value) if isinstance(value, int) else repr(value)])
                try:
                    if cb is not None:
                        cb(value)
                except BaseException as e2:  # noqa
                    log.append(["callback_raised", k, type(e2).__name__])
                    return False
            res.done = True
            return True

        def _handler(self):
            alive = True
            while True:
                if sched.shutdown:
                    return
                if sched.free_run:
                    # uncontrolled: deliver whatever is outstanding, in submission order
                    todo = [j[4].k for j in list(self.jobs) if not j[4].done]
                    if todo and alive:
                        alive = self._deliver(todo[0])
                        with sched.cv:
                            sched.cv.notify_all()
                    else:
                        time.sleep(0.01)
                    continue
                k = sched.handler_turn()
                if k is None:
                    continue
                wake = False
                if alive and k < len(self.jobs) and not self.jobs[k][4].done:
                    alive = self._deliver(k)
                    wake = all(j[4].done for j in self.jobs)
                sched.handler_done(wake)

    # replace whichever of these names the module uses (`import multiprocessing` or `from multiprocessing import
    # Pool`, `import time` or `from time import sleep`): the import style is not behaviour
    real_sleep = time.sleep
    short_sleep = lambda s: real_sleep(0.002 if sched.free_run else 0)      # noqa: E731
    saved = {}

    def patch(name, value):
        if hasattr(pp, name):
            saved[name] = getattr(pp, name)
            setattr(pp, name, value)
    patch("multiprocessing", types.SimpleNamespace(Pool=Pool))
    patch("Pool", Pool)
    ns = types.SimpleNamespace(**{k: getattr(time, k) for k in dir(time) if not k.startswith("__")})
    ns.sleep = short_sleep
    patch("time", ns)
    patch("sleep", short_sleep)

    def uninstall():
        for name, value in saved.items():
            setattr(pp, name, value)
    return uninstall


def run_job(job, workdir):
    from pyndl import preprocess as pp
    from pyndl import count
    path = os.path.join(workdir, "ev.tab.gz")
    write_event_file(path, [(list(c), list(o)) for c, o in job["events"]])
    cues, outs = {}, {}
    for c, o in job["events"]:
        for x in c:
            cues.setdefault(x, len(cues))
        for x in o:
            outs.setdefault(x, len(outs))
    out_dir = os.path.join(workdir, "chunks")
    sched = Sched(job["schedule"])
    log = []
    uninstall = install(sched, log)
    pol = {0: None, 1: True, 2: False}[job["pol"]]
    t0 = time.time()
    try:
        res = capture(lambda: pp.create_binary_event_files(path, out_dir, cues, outs, overwrite=True,
                                                           n_jobs=job["n_jobs"], events_per_file=job["per"],
                                                           remove_duplicates=pol))
    finally:
        uninstall()
    files = sorted(os.listdir(out_dir)) if os.path.isdir(out_dir) else []
    out = {"status": res["status"], "log": log, "files": files,
           "schedule_exhausted_with_live_threads": sched.exhausted_live, "stuck": sched.stuck,
           "turns": sched.turns, "schedule_used": sched.pos, "wall_s": round(time.time() - t0, 2)}
    if res["status"] == "ok":
        out["value"] = res["value"]
    else:
        out["type"] = res.get("type")
        out["message"] = str(res.get("msg"))[:300]
    return out


def handler(payload):
    out = []
    for i, job in enumerate(payload["jobs"]):
        with tempfile.TemporaryDirectory(prefix="proto%d-" % i, dir=os.getcwd()) as wd:
            out.append(run_job(job, wd))
    return out


if __name__ == "__main__":
    main(handler)
