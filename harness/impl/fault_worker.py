"""One learner call under an injected fault (or none), observed from outside: does it return, raise (what), and
what does it leave in the temporary directories; is the input file untouched.  One job per invocation - the
harness puts a deadline on the whole process."""
import gzip
import hashlib
import os
import resource
import signal
import time

import numpy as np

from implutil import main, capture, fast_poll, from_ratio, ratio


def sha(path):
    with open(path, "rb") as f:
        return hashlib.sha256(f.read()).hexdigest()


def listing(d):
    out = []
    for root, dirs, files in os.walk(d):
        for n in dirs + files:
            out.append(os.path.relpath(os.path.join(root, n), d))
    return sorted(out)


def install_job_wrapper(fsize_limit, fail_index, delays=None):
    import inspect
    import pyndl.preprocess as pp
    # The conversion jobs write their chunk through the PUBLIC function write_events, looked up in the module when the
    # job runs (in a pool worker forked after this patch): wrapping it reaches every job without relying on private
    # names, on the names of the temporary files or on how the jobs are submitted.  The chunk index is start/(stop-start).
    orig = pp.write_events
    sig = inspect.signature(orig)

    def write_events(*a, **kw):
        try:
            ba = sig.bind(*a, **kw)
            ba.apply_defaults()
            start, stop = int(ba.arguments["start"]), int(ba.arguments["stop"])
            idx = start // (stop - start) if stop > start else 0
        except Exception:
            idx = 0
        if delays:
            time.sleep(delays[idx % len(delays)])
        if fsize_limit is not None and (fail_index is None or idx == fail_index):
            # soft limit only, and only for this job: the worker process runs other jobs afterwards
            old = resource.getrlimit(resource.RLIMIT_FSIZE)
            resource.setrlimit(resource.RLIMIT_FSIZE, (fsize_limit, old[1]))
            try:
                return orig(*a, **kw)
            finally:
                resource.setrlimit(resource.RLIMIT_FSIZE, old)
        return orig(*a, **kw)
    write_events.__module__ = orig.__module__
    write_events.__qualname__ = "write_events"
    write_events.__doc__ = orig.__doc__
    pp.write_events = write_events


def install_spool_wrapper(fsize_limit):
    """the storage runs out while the main process spools generator input to a text file"""
    import pyndl.io as pio
    orig = pio.events_to_file

    def events_to_file(*a, **kw):
        old = resource.getrlimit(resource.RLIMIT_FSIZE)
        resource.setrlimit(resource.RLIMIT_FSIZE, (fsize_limit, old[1]))
        try:
            return orig(*a, **kw)
        finally:
            resource.setrlimit(resource.RLIMIT_FSIZE, old)
    pio.events_to_file = events_to_file


def vectors(tbl, dim_name, row_name):
    import xarray as xr
    vals = np.array(tbl["values"], dtype=np.float64).reshape(len(tbl["rows"]), len(tbl["dims"]))
    return xr.DataArray(vals, coords=[(row_name, tbl["rows"]), (dim_name, tbl["dims"])])


def param(v):
    """[n, d] -> float ; {'raw': x} -> x as given (for unusable types) ; {'none': 1} -> None"""
    if isinstance(v, dict):
        if "none" in v:
            return None
        return v["raw"]
    return from_ratio(v)


def handler(job):
    signal.signal(signal.SIGXFSZ, signal.SIG_IGN)
    from pyndl import ndl, wh
    if job.get("fast_poll", True):
        fast_poll()
    wd = os.getcwd()
    path = os.path.join(wd, "events.tab.gz")
    data = ("\n".join(job["lines"]) + "\n").encode("utf-8")
    blob = gzip.compress(data)
    if job.get("truncate") is not None:
        blob = blob[:max(0, len(blob) - job["truncate"])]
    with open(path, "wb") as f:
        f.write(blob)
    pol = {0: None, 1: True, 2: False}[job.get("pol", 0)]
    if job.get("fsize_limit") is not None or job.get("delays"):
        install_job_wrapper(job.get("fsize_limit"), job.get("fail_index"), job.get("delays"))
    if job.get("spool_fsize_limit") is not None:
        install_spool_wrapper(job["spool_fsize_limit"])
    given_tmp = None
    if job.get("give_tmp", True):
        given_tmp = os.path.join(wd, "given_tmp")
        os.mkdir(given_tmp)
        # something that must survive the call
        with open(os.path.join(given_tmp, "keep.me"), "w") as f:
            f.write("x")
    stop_bystander = None
    if job.get("bystander_thread"):
        import threading
        stop_bystander = threading.Event()
        threading.Thread(target=stop_bystander.wait, daemon=True).start()     # idle: holds no lock, touches nothing
    systmp = os.environ["TMPDIR"]
    before_sys = listing(systmp)
    before_given = listing(given_tmp) if given_tmp else None
    sha_before = sha(path)
    learner = job["learner"]
    kw = dict(n_jobs=job.get("n_jobs", 2), remove_duplicates=pol, temporary_directory=given_tmp,
              events_per_temporary_file=job.get("per", 10000000))
    events = None
    if job.get("input") == "generator":
        evs = [(c.split("_"), o.split("_")) for c, o in (ln.split("\t")[:2] for ln in job["lines"][1:])]
        bad_at = job.get("generator_fails_at")

        def gen():
            for i, e in enumerate(evs):
                if bad_at is not None and i == bad_at:
                    raise RuntimeError("generator failed at event %d" % i)
                yield e
        events = gen()
    t0 = time.time()
    old_fsize = None
    if job.get("process_fsize_limit") is not None:
        old_fsize = resource.getrlimit(resource.RLIMIT_FSIZE)
        resource.setrlimit(resource.RLIMIT_FSIZE, (job["process_fsize_limit"], old_fsize[1]))

    def go():
        if learner == "dict_ndl":
            ev = events if events is not None else path
            w = ndl.dict_ndl(ev, param(job["alpha"]), (param(job["beta1"]), param(job["beta2"])), param(job["lam"]),
                             remove_duplicates=pol)
            return "weights(%d outcomes)" % len(w)
        if learner.startswith("ndl_"):
            ev = events if events is not None else path
            w = ndl.ndl(ev, param(job["alpha"]), (param(job["beta1"]), param(job["beta2"])), param(job["lam"]),
                        method=learner.split("_")[1], n_outcomes_per_job=job.get("n_outcomes_per_job", 2), **kw)
            return "weights%r sum_abs=%r" % (tuple(w.shape), float(abs(w.values).sum()))
        cv = vectors(job["cue_vectors"], "cue_vector_dimensions", "cues") if job.get("cue_vectors") else None
        ov = vectors(job["outcome_vectors"], "outcome_vector_dimensions", "outcomes") if job.get("outcome_vectors") else None
        if learner == "dict_wh":
            w = wh.dict_wh(path, param(job["eta"]), cv, ov, remove_duplicates=pol)
            return "weights"
        method = job.get("method", "openmp")
        w = wh.wh(path, param(job["eta"]), cue_vectors=cv, outcome_vectors=ov, method=method,
                  n_outcomes_per_job=job.get("n_outcomes_per_job", 2), **kw)
        return "weights%r sum_abs=%r" % (tuple(w.shape), float(abs(w.values).sum()))
    res = capture(go)
    if old_fsize is not None:
        resource.setrlimit(resource.RLIMIT_FSIZE, old_fsize)
    if stop_bystander is not None:
        stop_bystander.set()
    res["wall_s"] = round(time.time() - t0, 2)
    res["system_tmp_new"] = sorted(set(listing(systmp)) - set(before_sys))
    res["given_tmp_new"] = sorted(set(listing(given_tmp)) - set(before_given)) if given_tmp else []
    res["given_tmp_lost"] = sorted(set(before_given) - set(listing(given_tmp))) if given_tmp else []
    res["input_unchanged"] = os.path.exists(path) and sha(path) == sha_before
    return res


if __name__ == "__main__":
    main(handler)
