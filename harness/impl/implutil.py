"""Helpers for the implementation-side workers (run with the scratch pyndl on
PYTHONPATH).  No model logic here: only I/O, conversion to exact rationals and
exception capture."""
import gzip
import json
import os
import sys
import tempfile
import traceback
import types


def fast_poll():
    """The submit loop of create_binary_event_files polls with time.sleep(1.0);
    bulk correspondence runs shorten the polling interval (timing only)."""
    import time as _time
    import pyndl.preprocess as pp
    real = _time.sleep
    short = lambda s: real(min(s, 0.01))      # noqa: E731
    # whichever way the module reaches sleep (`import time` or `from time import sleep`); everything else of the
    # time module stays available
    if hasattr(pp, "time"):
        ns = types.SimpleNamespace(**{k: getattr(_time, k) for k in dir(_time) if not k.startswith("__")})
        ns.sleep = short
        pp.time = ns
    if hasattr(pp, "sleep"):
        pp.sleep = short


def write_event_file(path, events, freq=None, gz=True, header="cues\toutcomes"):
    """events: list of [cues, outcomes] (lists of str). An event without
    outcomes is written with an empty outcome field."""
    op = gzip.open if gz else open
    with op(path, "wt", encoding="utf-8", newline="\n") as f:
        f.write(header + "\n")
        for i, (cs, os_) in enumerate(events):
            line = "_".join(cs) + "\t" + "_".join(os_)
            if freq is not None:
                line += "\t%d" % freq[i]
            f.write(line + "\n")


def ratio(x):
    n, d = float(x).as_integer_ratio()
    return [n, d]


def from_ratio(nd):
    return nd[0] / nd[1]


def data_array_cells(da, odim="outcomes", cdim="cues", select=None):
    """DataArray -> {'outcomes': [...], 'cues': [...], 'values': [[ [n,d], ...], ...]}
    select = {'outcomes': [...], 'cues': [...]} restricts the *values* to those labels
    (all labels are still reported under all_outcomes / all_cues)."""
    import numpy as np
    outs = [str(x) if not isinstance(x, str) else x for x in da.coords[odim].values.tolist()]
    cues = [str(x) if not isinstance(x, str) else x for x in da.coords[cdim].values.tolist()]
    vals = np.asarray(da.values, dtype=float)
    res = {"dims": list(da.dims), "n_outcomes": len(outs), "n_cues": len(cues),
           "dup_labels": len(set(outs)) != len(outs) or len(set(cues)) != len(cues)}
    if select is not None:
        oi = {o: i for i, o in enumerate(outs)}
        ci = {c: i for i, c in enumerate(cues)}
        so = [o for o in select["outcomes"]]
        sc_ = [c for c in select["cues"]]
        res["missing"] = [o for o in so if o not in oi] + [c for c in sc_ if c not in ci]
        so = [o for o in so if o in oi]
        sc_ = [c for c in sc_ if c in ci]
        res.update({"outcomes": so, "cues": sc_,
                    "values": [[ratio(vals[oi[o], ci[c]]) for c in sc_] for o in so],
                    "label_set_hash": [sorted(outs)[:3], sorted(cues)[:3]]})
        return res
    res.update({"outcomes": outs, "cues": cues, "values": [[ratio(v) for v in row] for row in vals.tolist()]})
    return res


def weight_dict_cells(wd):
    outs = list(wd.keys())
    cues = []
    seen = set()
    for o in outs:
        for c in wd[o].keys():
            if c not in seen:
                seen.add(c)
                cues.append(c)
    return {"outcomes": outs, "cues": cues, "dims": ["outcomes", "cues"],
            "values": [[ratio(wd[o].get(c, 0.0)) for c in cues] for o in outs]}


def capture(fn):
    """run fn(); return ('ok', value) or ('raise', exception class name, message)"""
    try:
        return {"status": "ok", "value": fn()}
    except BaseException as e:  # noqa
        if isinstance(e, (KeyboardInterrupt, SystemExit)):
            raise
        return {"status": "raise", "type": type(e).__name__, "msg": str(e)[:300]}


def main(handler):
    inp, outp = sys.argv[1], sys.argv[2]
    with open(inp) as f:
        payload = json.load(f)
    res = handler(payload)
    tmp = outp + ".tmp"
    with open(tmp, "w") as f:
        json.dump(res, f)
    os.replace(tmp, outp)
