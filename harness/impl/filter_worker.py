"""C10: JobFilter.job / filter_event_file of the scratch pyndl on harness-written files.
Everything (texts, rules, n_jobs, chunksize) is decided by the harness."""
import gzip
import os
import tempfile

from implutil import main, capture


def rule_kwargs(side, rule):
    """rule = ["all"] | ["keep", tokens, container] | ["remove", tokens, container] | ["map", [[k, v], ...]]"""
    kind = rule[0]
    if kind == "all":
        return {}
    if kind == "map":
        return {{"cues": "cue_map", "outcomes": "outcome_map"}[side]: dict((k, v) for k, v in rule[1])}
    toks = list(rule[1])
    cont = rule[2] if len(rule) > 2 else "list"
    obj = {"list": list, "tuple": tuple, "set": set, "frozenset": frozenset,
           "dict": lambda t: dict.fromkeys(t, 1)}[cont](toks)
    return {("keep_" if kind == "keep" else "remove_") + side: obj}


def filter_kwargs(rc, ro):
    kw = {}
    kw.update(rule_kwargs("cues", rc))
    kw.update(rule_kwargs("outcomes", ro))
    return kw


def run_file(pp, wd, text, rc, ro, n_jobs, chunksize):
    inp = os.path.join(wd, "in.gz")
    outp = os.path.join(wd, "out.gz")
    with open(inp, "wb") as f:
        f.write(gzip.compress(text.encode("utf-8"), 1))
    if os.path.exists(outp):
        os.remove(outp)
    pp.filter_event_file(inp, outp, n_jobs=n_jobs, chunksize=chunksize, **filter_kwargs(rc, ro))
    with open(outp, "rb") as f:
        return gzip.decompress(f.read()).decode("utf-8")


def handler(payload):
    from pyndl import preprocess as pp
    import multiprocessing.pool
    out = []
    wd = tempfile.mkdtemp(prefix="flt-", dir=os.getcwd())
    for job in payload["jobs"]:
        kind = job["kind"]
        if kind == "file":
            # "passes": the same rule pair applied again to its own output (twice = once)
            def go(job=job):
                text = job["text"]
                outs = []
                for _ in range(job.get("passes", 1)):
                    text = run_file(pp, wd, text, job["rc"], job["ro"], job["n_jobs"], job["chunksize"])
                    outs.append(text)
                return outs
            out.append(capture(go))
        elif kind == "lines":
            jf = pp.JobFilter(*[filter_kwargs(job["rc"], job["ro"]).get(k, d) for k, d in (
                ("keep_cues", "all"), ("keep_outcomes", "all"), ("remove_cues", None),
                ("remove_outcomes", None), ("cue_map", None), ("outcome_map", None))])
            out.append([capture(lambda l=l: jf.job(l)) for l in job["lines"]])
        elif kind == "tasks":
            res = []
            for k, items in job["cases"]:
                res.append([list(c) for _, c in multiprocessing.pool.Pool._get_tasks(None, items, k)])
            out.append(res)
        else:
            raise ValueError(kind)
    return out


if __name__ == "__main__":
    main(handler)
