"""Runs pyndl.activation.activation (and, for the one-step experiment, the learners) of the scratch pyndl
on a batch of jobs.  No model logic: builds the inputs the harness describes, converts results to exact
rationals, captures exceptions."""
import os
import tempfile
import warnings
from collections import defaultdict

import numpy as np

from implutil import (main, capture, write_event_file, data_array_cells, weight_dict_cells,
                      fast_poll, from_ratio, ratio)

warnings.filterwarnings("ignore")


def build_da(spec):
    """spec: outcomes, cues (labels, rows x cols), values [[ [n,d] ]], layout, dtype"""
    import xarray as xr
    outs, cues = list(spec["outcomes"]), list(spec["cues"])
    dtype = np.dtype(spec.get("dtype", "float64"))
    vals = np.array([[from_ratio(v) for v in row] for row in spec["values"]], dtype=dtype)
    vals = vals.reshape((len(outs), len(cues)))
    layout = spec.get("layout", "C")
    coords = {"outcomes": outs, "cues": cues}
    if layout == "C":
        return xr.DataArray(np.ascontiguousarray(vals), dims=("outcomes", "cues"), coords=coords)
    if layout == "F":
        return xr.DataArray(np.asfortranarray(vals), dims=("outcomes", "cues"), coords=coords)
    if layout == "T":      # a transposed VIEW of a cues x outcomes array
        base = np.ascontiguousarray(vals.T)
        return xr.DataArray(base, dims=("cues", "outcomes"), coords=coords).T
    if layout == "S":      # a strided view into a larger array filled with other numbers
        big = np.full((2 * len(outs) + 1, 3 * len(cues) + 2), 99.0, dtype=dtype)
        view = big[1::2, 2::3][:len(outs), :len(cues)]
        view[...] = vals
        return xr.DataArray(view, dims=("outcomes", "cues"), coords=coords)
    if layout == "swapped":  # dims (cues, outcomes), NOT transposed back
        return xr.DataArray(np.ascontiguousarray(vals.T), dims=("cues", "outcomes"), coords=coords)
    raise ValueError(layout)


def build_dict(spec):
    """spec: type 'dict' | 'weightdict'; rows [[outcome, default_flag, [[cue, [n,d]], ...]], ...]"""
    from pyndl.ndl import WeightDict
    if spec["type"] == "weightdict":
        w = WeightDict()
        for o, _dflt, row in spec["rows"]:
            w[o]                      # creates the (defaulting) row
            for c, v in row:
                w[o][c] = from_ratio(v)
        return w
    w = {}
    for o, dflt, row in spec["rows"]:
        items = [(c, from_ratio(v)) for c, v in row]
        w[o] = defaultdict(float, items) if dflt else dict(items)
    return w


def events_arg(job, workdir):
    events = [(list(cs), list(os_)) for cs, os_ in job["events"]]
    form = job.get("form", "list")
    if form == "file":
        path = os.path.join(workdir, "ev.tab.gz")
        write_event_file(path, events, freq=job.get("freq"))
        return path
    if form == "generator":
        return (e for e in events)
    return events


def run_act(job, workdir):
    import xarray as xr
    from pyndl import activation
    wspec = job["weights"]
    weights = build_da(wspec) if wspec["type"] == "da" else build_dict(wspec)
    ev = events_arg(job, workdir)
    pol = {0: None, 1: True, 2: False}[job["pol"]]
    kw = {}
    if "ignore" in job:
        kw["ignore_missing_cues"] = bool(job["ignore"])

    def go():
        if job.get("prelude") and wspec["type"] == "da":
            # a multi-step history in one process: the SAME weights object is used for an earlier call with
            # other values, changed in place, and used again - the result must be that of the values it holds now
            arr = weights.values
            final = arr.copy()
            arr[...] = final * 3 + 1
            try:
                activation.activation([e for e in job["events"]][:2] or [(["zz"], [])], weights,
                                      n_jobs=job["n_jobs"], remove_duplicates=True, ignore_missing_cues=True)
            except Exception:
                pass
            arr[...] = final
        res = activation.activation(ev, weights, n_jobs=job["n_jobs"], remove_duplicates=pol, **kw)
        if isinstance(res, xr.DataArray):
            vals = np.asarray(res.values)
            out = {"kind": "da", "dims": [str(d) for d in res.dims], "shape": list(vals.shape),
                   "dtype": str(vals.dtype),
                   "coords": sorted(str(c) for c in res.coords),
                   "outcomes": res.coords["outcomes"].values.tolist() if "outcomes" in res.coords else None,
                   "values": [[ratio(x) for x in row] for row in vals.tolist()]}
            if wspec["type"] == "da":
                out["weights_values_seen"] = [[ratio(x) for x in row]
                                              for row in np.asarray(weights.values, dtype=float).tolist()]
            return out
        out = {"kind": type(res).__name__, "outcomes": list(res.keys()),
               "values": [[ratio(x) for x in np.asarray(res[o]).tolist()] for o in res.keys()],
               "lens": [int(np.asarray(res[o]).shape[0]) for o in res.keys()],
               "rows_after": [[o, list(weights[o].keys())] for o in weights.keys()]}
        return out
    return capture(go)


def run_one_step(job, workdir):
    """activation of one event with weights W, then ONE more event through a learner started from W"""
    from pyndl import activation, ndl
    alpha, lam = from_ratio(job["alpha"]), from_ratio(job["lam"])
    betas = (from_ratio(job["beta1"]), from_ratio(job["beta2"]))
    learner = job["learner"]

    def learn(events, weights, tag):
        if learner == "dict_ndl":
            return ndl.dict_ndl(events, alpha, betas, lam, weights=weights, remove_duplicates=None,
                                make_data_array=True)
        path = os.path.join(workdir, "%s.tab.gz" % tag)
        write_event_file(path, events)
        return ndl.ndl(path, alpha, betas, lam, method=learner.split(":")[1], weights=weights,
                       n_jobs=job.get("learn_jobs", 2), n_outcomes_per_job=job.get("n_outcomes_per_job", 2),
                       remove_duplicates=None, temporary_directory=workdir)

    def go():
        if job.get("pre_events") is not None:
            W = learn([(list(cs), list(os_)) for cs, os_ in job["pre_events"]], None, "pre")
        else:
            W = build_da(job["weights"])
        before = data_array_cells(W)
        ev = (list(job["event"][0]), list(job["event"][1]))
        A = activation.activation([ev], W, n_jobs=job.get("n_jobs", 1), remove_duplicates=None,
                                  ignore_missing_cues=bool(job.get("ignore", False)))
        act = {"dims": [str(d) for d in A.dims], "outcomes": A.coords["outcomes"].values.tolist(),
               "values": [[ratio(x) for x in row] for row in np.asarray(A.values).tolist()]}
        after_act = data_array_cells(W)
        W2 = learn([ev], W, "one")
        return {"W": before, "W_unchanged_by_activation": before == after_act, "A": act,
                "W2": data_array_cells(W2)}
    return capture(go)


def handler(payload):
    if payload.get("fast_poll", True):
        fast_poll()
    out = []
    # the same directory path for every job of this process (emptied in between), see rw_worker
    import shutil
    wd = os.path.join(os.getcwd(), "jobdir")
    for i, job in enumerate(payload["jobs"]):
        shutil.rmtree(wd, ignore_errors=True)
        os.mkdir(wd)
        if job["kind"] == "act":
            out.append(run_act(job, wd))
        elif job["kind"] == "one_step":
            out.append(run_one_step(job, wd))
        else:
            raise ValueError(job["kind"])
    shutil.rmtree(wd, ignore_errors=True)
    return out


if __name__ == "__main__":
    main(handler)
