"""Try to OBSERVE a data race of the OpenMP Rescorla-Wagner entry point: many parallel regions (one per chunk file in
the list), many one-outcome parts, several threads, compared bit for bit with the one-thread run of the same call
(every row is updated by the same operations in the same order, whatever the schedule, when nothing races)."""
import os
import struct
import time

import numpy as np

from implutil import main


def handler(job):
    from pyndl import ndl_openmp
    n_out, n_cue = job.get("n_out", 64), job.get("n_cue", 6)
    rnd = np.random.RandomState(job.get("seed", 0))
    wd = os.getcwd()
    paths = []
    for f in range(8):
        evs = []
        for _ in range(3):
            cs = sorted(set(int(x) for x in rnd.randint(0, n_cue, size=3)))
            os_ = sorted(set(int(x) for x in rnd.randint(0, n_out, size=5)))
            evs.append((cs, os_))
        data = struct.pack("<III", 14159265, 2263, len(evs))
        for cs, os_ in evs:
            data += struct.pack("<I%dI" % len(cs), len(cs), *cs) + struct.pack("<I%dI" % len(os_), len(os_), *os_)
        p = os.path.join(wd, "stress_%d.dat" % f)
        with open(p, "wb") as fh:
            fh.write(data)
        paths.append(p)
    allo = np.arange(n_out, dtype=np.uint32)
    regions = paths * job.get("repeat", 25)

    def run(n_jobs):
        W = np.zeros((n_out, n_cue))
        ndl_openmp.learn_inplace_binary_to_binary(regions, 0.125, 0.25, 0.0625, 1.0, W, allo, 1, n_jobs)
        return W
    ref = run(1)
    t0 = time.time()
    calls = 0
    while time.time() - t0 < job.get("budget_s", 10):
        for nj in (8, 4, 16):
            calls += 1
            W = run(nj)
            if not np.array_equal(W, ref):
                bad = np.argwhere(W != ref)
                return {"observed": True, "calls": calls, "regions_per_call": len(regions), "n_jobs": nj,
                        "rows_that_differ": sorted(set(int(b[0]) for b in bad))[:20]}
    return {"observed": False, "calls": calls, "regions_per_call": len(regions)}


if __name__ == "__main__":
    main(handler)
