"""Text event files of the scratch pyndl: reader, writer, counting and the
learners in their input forms (C07) and the counting functions (C11).
Strings travel as code point lists.  No model logic here."""
import gzip
import os
import pathlib
import tempfile
import warnings

from implutil import main, capture, fast_poll, ratio, from_ratio, data_array_cells, weight_dict_cells


def s_of(cps):
    return "".join(map(chr, cps))


def cps_of(s):
    return [ord(c) for c in s]


def ev_out(events):
    return [[[cps_of(t) for t in cs], [cps_of(t) for t in os_]] for cs, os_ in events]


def ev_in(events):
    return [([s_of(t) for t in cs], [s_of(t) for t in os_]) for cs, os_ in events]


def write_raw(path, text, gz):
    data = s_of(text).encode("utf-8")
    if gz:
        data = gzip.compress(data)
    with open(path, "wb") as f:
        f.write(data)


def read_raw(path, gz):
    with open(path, "rb") as f:
        data = f.read()
    if gz:
        data = gzip.decompress(data)
    return cps_of(data.decode("utf-8"))


def counter_items(c):
    return [[cps_of(k), int(v)] for k, v in c.items()]


def build_container(job):
    """container forms of the same events; per column 'l' (token list) or 's' (joined string)"""
    events = ev_in(job["events"])
    shape = job["shape"]            # list of 'll', 'ls', 'sl', 'ss' per event
    items = []
    for (cs, os_), sh in zip(events, shape):
        a = cs if sh[0] == "l" else "_".join(cs)
        b = os_ if sh[1] == "l" else "_".join(os_)
        items.append((a, b))
    form = job["form"]
    if form == "list":
        return [list(it) for it in items]
    if form == "tuples":
        return tuple(items)
    if form == "generator":
        return (it for it in items)
    if form == "iterator":
        return iter(items)
    if form == "dataframe":
        import pandas as pd
        return pd.DataFrame({"cues": [a for a, _ in items], "outcomes": [b for _, b in items]},
                            columns=["cues", "outcomes"])
    raise ValueError(form)


def cells_of(w):
    if hasattr(w, "coords"):
        res = data_array_cells(w)
    else:
        res = weight_dict_cells(w)
    res["outcomes"] = [cps_of(o) for o in res["outcomes"]]
    res["cues"] = [cps_of(c) for c in res["cues"]]
    ne = None
    attrs = getattr(w, "attrs", None)
    if attrs and "number_events" in attrs:
        ne = str(attrs["number_events"]).strip()
    res["number_events"] = ne
    return res


def run_job(job, wd):
    from pyndl import io, count, ndl
    kind = job["kind"]
    gz = bool(job.get("gz", True))
    comp = "gzip" if gz else None
    path = os.path.join(wd, "events.tab" + (".gz" if gz else ""))
    if kind == "read":
        write_raw(path, job["text"], gz)
        return capture(lambda: ev_out(list(io.events_from_file(path, compression=comp, start=job["start"],
                                                               step=job["step"]))))
    if kind == "write":
        def go():
            cont = build_container(job)
            with warnings.catch_warnings():
                warnings.simplefilter("ignore")
                kw = {}
                if job.get("legacy_columns"):
                    kw["columns"] = ("Cues", "Outcomes", "Frequency")
                io.events_to_file(cont, path, compression=comp, compatible=bool(job["compatible"]), **kw)
            text = read_raw(path, gz)
            back = ev_out(list(io.events_from_file(path, compression=comp)))
            return {"text": text, "back": back}
        return capture(go)
    if kind == "count":
        write_raw(path, job["text"], True)

        def go():
            n, cues, outs = count.cues_outcomes(path, n_jobs=job["n_jobs"])
            return {"n_events": int(n), "cues": counter_items(cues), "outcomes": counter_items(outs)}
        return capture(go)
    if kind == "count_job":
        write_raw(path, job["text"], True)

        # the per-process job is a private function: when a tree does not have it under this name, its single-slice
        # correspondence is skipped (the public cues_outcomes is compared on the same files for every n_jobs)
        if not hasattr(count, "_job_cues_outcomes"):
            return {"status": "private_name_absent"}

        def go():
            n, cues, outs = count._job_cues_outcomes(path, job["start"], job["step"])
            return {"n_events": int(n), "cues": counter_items(cues), "outcomes": counter_items(outs)}
        return capture(go)
    if kind == "words":
        p = os.path.join(wd, "corpus.txt")
        with open(p, "wb") as f:
            f.write(s_of(job["text"]).encode("utf-8"))

        def go():
            words, symbols = count.words_symbols(p, n_jobs=job["n_jobs"], lower_case=bool(job["lower_case"]))
            return {"words": counter_items(words), "symbols": counter_items(symbols)}
        return capture(go)
    if kind == "learn":
        # the same events in every input form of one learner
        events = ev_in(job["events"])
        write_raw(path, job["text"], True)              # the event file (possibly with a frequency column)
        betas = (from_ratio(job["beta1"]), from_ratio(job["beta2"]))
        alpha, lam = from_ratio(job["alpha"]), from_ratio(job["lam"])
        form = job["form"]
        learner = job["learner"]

        def go():
            if learner == "ndl":
                if form == "path":
                    ev = path
                elif form == "pathlib":
                    ev = pathlib.Path(path)
                elif form == "generator":
                    ev = (e for e in events)
                else:
                    raise ValueError(form)
                w = ndl.ndl(ev, alpha, betas, lam, method=job["method"], n_jobs=job["n_jobs"],
                            remove_duplicates=None, temporary_directory=wd,
                            events_per_temporary_file=job.get("events_per_file", 10000000))
            else:
                if form == "path":
                    ev = path
                elif form == "list":
                    ev = list(events)
                elif form == "generator":
                    ev = (e for e in events)
                else:
                    raise ValueError(form)
                w = ndl.dict_ndl(ev, alpha, betas, lam, remove_duplicates=None,
                                 make_data_array=bool(job.get("make_data_array")))
            return cells_of(w)
        res = capture(go)
        res["leftover"] = sorted(x for x in os.listdir(wd) if x != os.path.basename(path))
        return res
    raise ValueError(kind)


def handler(payload):
    if payload.get("fast_poll", True):
        fast_poll()
    out = []
    # every job of this process works in the SAME directory path (emptied in between): the files of consecutive calls
    # have the same names and other contents, so anything a call remembers about a path is put to the test
    import shutil
    wd = os.path.join(os.getcwd(), "jobdir")
    for i, job in enumerate(payload["jobs"]):
        shutil.rmtree(wd, ignore_errors=True)
        os.mkdir(wd)
        out.append(run_job(job, wd))
    shutil.rmtree(wd, ignore_errors=True)
    return out


if __name__ == "__main__":
    main(handler)
