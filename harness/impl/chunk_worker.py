"""create_binary_event_files / ndl.ndl with chunking, per-job delays (completion order) and faults.
One job per invocation (the harness runs invocations in parallel, each under a deadline)."""
import os
import resource
import tempfile
import time

from implutil import main, capture, write_event_file, data_array_cells, fast_poll, from_ratio


def install_job_wrapper(delays=None, fsize_limit=None, fail_index=None):
    """wrap the conversion job BEFORE the pool forks: sleep per chunk index (permutes the completion
    order), and/or install a file-size limit inside the job (EFBIG while a chunk is written)"""
    import inspect
    import pyndl.preprocess as pp
    # The conversion jobs write their chunk through the PUBLIC function write_events, looked up in the module when the
    # job runs (in a pool worker forked after this patch): wrapping it reaches every job without relying on private
    # names, on the names of the temporary files or on how the jobs are submitted.  The chunk index is start/(stop-start).
    orig = pp.write_events
    sig = inspect.signature(orig)

    def write_events(*a, **kw):
        try:
            ba = sig.bind(*a, **kw)
            ba.apply_defaults()
            start, stop = int(ba.arguments["start"]), int(ba.arguments["stop"])
            idx = start // (stop - start) if stop > start else 0
        except Exception:
            idx = 0
        if delays:
            time.sleep(delays[idx % len(delays)])
        if fsize_limit is not None and (fail_index is None or idx == fail_index):
            # soft limit only, and only for this job: the worker process runs other jobs afterwards
            old = resource.getrlimit(resource.RLIMIT_FSIZE)
            resource.setrlimit(resource.RLIMIT_FSIZE, (fsize_limit, old[1]))
            try:
                return orig(*a, **kw)
            finally:
                resource.setrlimit(resource.RLIMIT_FSIZE, old)
        return orig(*a, **kw)
    write_events.__module__ = orig.__module__
    write_events.__qualname__ = "write_events"
    write_events.__doc__ = orig.__doc__
    pp.write_events = write_events


def handler(job):
    import signal
    signal.signal(signal.SIGXFSZ, signal.SIG_IGN)      # get EFBIG instead of being killed
    from pyndl import preprocess, ndl
    if job.get("fast_poll"):
        fast_poll()
    if job.get("race_delay"):
        # amplify one specific interleaving: the submitting thread is preempted between the state check of
        # apply_async and the registration of the job, while the result handler thread runs the callbacks
        import multiprocessing.pool as mpp
        orig_check = mpp.Pool._check_running

        def slow_check(self):
            orig_check(self)
            time.sleep(job["race_delay"])
        mpp.Pool._check_running = slow_check
    wd = os.getcwd()
    path = os.path.join(wd, "events.tab.gz")
    events = [(list(cs), list(os_)) for cs, os_ in job["events"]]
    write_event_file(path, events, freq=job.get("freq"))
    pol = {0: None, 1: True, 2: False}[job.get("pol", 0)]
    if job.get("delays") or job.get("fsize_limit") is not None:
        install_job_wrapper(job.get("delays"), job.get("fsize_limit"), job.get("fail_index"))
    # history: the SAME path held shorter files before and was converted / learned from in this very process
    # (whatever a call remembers about a path must not survive the call)
    earlier_failures = []
    for hk, k in enumerate(job.get("earlier_prefixes") or []):
        write_event_file(path, events[:k], freq=(job.get("freq") or [])[:k] or None)
        try:
            if job["mode"] == "convert":
                preprocess.create_binary_event_files(path, os.path.join(wd, "chunks_earlier_%d" % hk), job["cue_map"],
                                                     job["outcome_map"], n_jobs=job["n_jobs"],
                                                     events_per_file=job["per"], remove_duplicates=pol)
            elif k > 0:
                ndl.ndl(path, from_ratio(job["alpha"]), (from_ratio(job["beta1"]), from_ratio(job["beta2"])),
                        from_ratio(job["lam"]), method=job["method"], n_jobs=job["n_jobs"], remove_duplicates=pol,
                        events_per_temporary_file=job["per"])
        except Exception as e:      # noqa  (duplicates under the default policy etc.: the main call decides)
            earlier_failures.append(type(e).__name__)
    if job.get("earlier_prefixes"):
        write_event_file(path, events, freq=job.get("freq"))
    before_tmp = sorted(os.listdir(os.environ["TMPDIR"]))
    t0 = time.time()
    if job["mode"] == "convert":
        outdir = os.path.join(wd, "chunks")

        def go():
            n = preprocess.create_binary_event_files(path, outdir, job["cue_map"], job["outcome_map"],
                                                     n_jobs=job["n_jobs"], events_per_file=job["per"],
                                                     remove_duplicates=pol)
            files = {}
            for name in sorted(os.listdir(outdir)):
                with open(os.path.join(outdir, name), "rb") as f:
                    files[name] = list(f.read())
            return {"n": n, "files": files}
        res = capture(go)
    else:
        tmpdir = os.path.join(wd, "given_tmp")
        os.mkdir(tmpdir)

        def go():
            w = ndl.ndl(path, from_ratio(job["alpha"]), (from_ratio(job["beta1"]), from_ratio(job["beta2"])),
                        from_ratio(job["lam"]), method=job["method"], n_jobs=job["n_jobs"],
                        n_outcomes_per_job=job.get("n_outcomes_per_job", 3), remove_duplicates=pol,
                        temporary_directory=tmpdir if job.get("give_tmp", True) else None,
                        events_per_temporary_file=job["per"])
            d = data_array_cells(w)
            d["number_events_attr"] = w.attrs["number_events"].strip()
            return d
        res = capture(go)
        res["tmp_left"] = sorted(os.listdir(tmpdir))
    res["wall_s"] = round(time.time() - t0, 2)
    res["earlier_failures"] = earlier_failures
    res["system_tmp_new"] = sorted(set(os.listdir(os.environ["TMPDIR"])) - set(before_tmp))
    return res


if __name__ == "__main__":
    main(handler)
