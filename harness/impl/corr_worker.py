"""Correlation: the Cython kernel called directly and the Python wrapper of the scratch pyndl.
All numbers arrive as JSON floats (repr round-trips exactly; NaN as the JSON token NaN) and
leave as exact ratios [num, den] or the strings 'nan' / 'inf' / '-inf'."""
import math
import warnings

import numpy as np

from implutil import main, capture


def cellout(x):
    x = float(x)
    if math.isnan(x):
        return "nan"
    if math.isinf(x):
        return "inf" if x > 0 else "-inf"
    n, d = x.as_integer_ratio()
    return [n, d]


def matout(m):
    m = np.asarray(m)
    return {"shape": list(m.shape), "dtype": str(m.dtype),
            "cells": [[cellout(v) for v in row] for row in m.tolist()]}


def lay2(rows, n, cols, layout, sr=2, sc=3, off_r=1, off_c=2):
    """the (n, cols) matrix with the given memory layout"""
    a = np.array(rows, dtype=np.float64).reshape(n, cols)
    if layout == "C":
        out = np.ascontiguousarray(a)
    elif layout == "F":
        out = np.asfortranarray(a)
    elif layout == "strided":
        big = np.full((n * sr + off_r + 1, cols * sc + off_c + 1), 777.25)
        out = big[off_r:off_r + n * sr:sr, off_c:off_c + cols * sc:sc]
        out[...] = a
    elif layout == "stridedF":
        big = np.full((cols * sc + off_c + 1, n * sr + off_r + 1), -555.5)
        out = big.T[off_r:off_r + n * sr:sr, off_c:off_c + cols * sc:sc]
        out[...] = a
    elif layout == "neg":
        big = np.ascontiguousarray(a[::-1, ::-1])
        out = big[::-1, ::-1]
    else:
        raise ValueError(layout)
    assert out.shape == (n, cols) and (np.array_equal(out, a, equal_nan=True))
    return out


def lay1(vals, strided):
    a = np.array(vals, dtype=np.float64)
    if not strided:
        return a
    big = np.full((len(vals) * 3 + 2,), 333.125)
    out = big[1:1 + len(vals) * 3:3]
    out[...] = a
    return out


def handler(payload):
    from pyndl import correlation as corr
    from pyndl import correlation_openmp as ck
    out = []
    for job in payload["jobs"]:
        kind = job["kind"]
        n, n_out, n_ev = job["n"], job["n_out"], job["n_ev"]
        lo = job.get("lay", {})
        sem = lay2(job["sem"], n, n_out, job["layout_s"], **lo)
        act = lay2(job["act"], n, n_ev, job["layout_a"], **lo)
        sem0, act0 = np.array(sem, copy=True), np.array(act, copy=True)
        if kind == "kernel":
            st = job.get("stats_strided", False)
            sm, ss = lay1(job["s_means"], st), lay1(job["s_stds"], st)
            am, as_ = lay1(job["a_means"], st), lay1(job["a_stds"], st)
            kw = {}
            if job.get("n_jobs") is not None:
                kw["n_jobs"] = job["n_jobs"]
            if job.get("chunksize") is not None:
                kw["chunksize"] = job["chunksize"]
            res = capture(lambda: matout(ck.correlation(sem, act, sm, ss, am, as_, **kw)))
        elif kind == "wrapper":
            # history: the SAME array objects were correlated before with other contents and changed in place since
            # (whatever a call remembers about an array must not survive a change of its contents)
            for prev in job.get("earlier") or []:
                keep_s, keep_a = sem.copy(), act.copy()
                sem[...] = np.array(prev["sem"], dtype=float).reshape(sem.shape) if prev.get("sem") is not None else sem
                act[...] = np.array(prev["act"], dtype=float).reshape(act.shape) if prev.get("act") is not None else act
                try:
                    with warnings.catch_warnings():
                        warnings.simplefilter("ignore")
                        corr.correlation(sem, act, allow_nan=True)
                except Exception:
                    pass
                sem[...] = keep_s
                act[...] = keep_a

            def go():
                with warnings.catch_warnings():
                    warnings.simplefilter("ignore")
                    r = corr.correlation(sem, act, allow_nan=job["allow_nan"])
                    v = {"r": matout(r)}
                    if job.get("reference"):
                        v["ref"] = matout(corr._reference_correlation(sem, act))
                    return v
            res = capture(go)
        else:
            raise ValueError(kind)
        res["inputs_unchanged"] = bool(np.array_equal(sem, sem0, equal_nan=True) and
                                       np.array_equal(act, act0, equal_nan=True))
        out.append(res)
    return out


if __name__ == "__main__":
    main(handler)
