"""Train a 70000 x 70000 weight matrix (more than 2^32 cells, sparse backing file) on ids near the corners."""
import os
import random
import struct

import numpy as np

from implutil import main, ratio


def enc(es):
    out = struct.pack("<III", 14159265, 2263, len(es))
    for cs, os_ in es:
        out += struct.pack("<I%dI" % len(cs), len(cs), *cs)
        out += struct.pack("<I%dI" % len(os_), len(os_), *os_)
    return out


def handler(payload):
    from pyndl import ndl_parallel, ndl_openmp
    n = payload["n"]
    rng = random.Random(payload["seed"])
    wd = os.getcwd()
    path = os.path.join(wd, "weights.mm")
    W = np.memmap(path, dtype=np.float64, mode="w+", shape=(n, n))
    special = [0, 1, n - 1, n - 2, 65535, 65536, 65537, n // 2]
    allo = sorted(set(special + [rng.randrange(n) for _ in range(20)]))
    cues_pool = sorted(set(special + [rng.randrange(n) for _ in range(10)]))
    files = []
    for _ in range(2):
        es = []
        for _ in range(4):
            cs = rng.sample(cues_pool, rng.randint(1, 4))
            os_ = rng.sample(allo, rng.randint(0, 3))
            es.append([cs, os_])
        files.append(es)
    paths = []
    for i, es in enumerate(files):
        p = os.path.join(wd, "events_0_%d.dat" % i)
        with open(p, "wb") as f:
            f.write(enc(es))
        paths.append(p)
    p = {"alpha": [1, 2], "beta1": [1, 4], "beta2": [1, 8], "lam": [3, 1]}
    a = np.array(allo, dtype=np.uint32)
    # first file through the threading entry point, second through OpenMP
    ndl_parallel.learn_inplace_binary_to_binary(paths[:1], 0.5, 0.25, 0.125, 3.0, W, a)
    ndl_openmp.learn_inplace_binary_to_binary(paths[1:], 0.5, 0.25, 0.125, 3.0, W, a, 3, 4)
    rows, cols = allo, cues_pool
    values = [[ratio(W[o, c]) for c in cols] for o in rows]
    # nothing else may have been written: scan the touched rows completely
    stray = []
    for o in rows:
        nz = np.nonzero(W[o])[0]
        for c in nz:
            if int(c) not in cols:
                stray.append([o, int(c)])
    del W
    os.remove(path)
    return {"case": {"n": n, "allo": allo, "files": files, "rows": rows, "cols": cols, "p": p},
            "values": values, "stray_nonzero": stray[:10]}


if __name__ == "__main__":
    main(handler)
