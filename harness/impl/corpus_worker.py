"""Corpus extraction of the scratch pyndl on trees that the harness describes completely
(paths, bytes of every file, links).  No model logic here."""
import gzip
import json
import os
import select
import shutil
import signal
import time

from implutil import main, capture


def write_file(path, spec):
    os.makedirs(os.path.dirname(path), exist_ok=True)
    data = spec["text"].encode("utf-8")
    if spec.get("bom"):
        data = b"\xef\xbb\xbf" + data
    if spec.get("gz", True):
        with gzip.open(path, "wb") as f:
            f.write(data)
    else:
        with open(path, "wb") as f:
            f.write(data)


def listing(d):
    out = {}
    if os.path.isdir(d):
        for name in sorted(os.listdir(d)):
            p = os.path.join(d, name)
            if os.path.isfile(p):
                with open(p, "rb") as f:
                    out[name] = f.read().hex()
            else:
                out[name] = None
    return out


def build_tree(base, tree, dangling):
    """base/tree = the directory handed to pyndl, base/outside = link targets, base/out = outfile"""
    os.makedirs(os.path.join(base, "tree"))
    os.makedirs(os.path.join(base, "outside"))
    os.makedirs(os.path.join(base, "out"))
    for d in tree["dirs"]:
        os.makedirs(os.path.join(base, "tree", d), exist_ok=True)
    for f in tree["files"]:
        write_file(os.path.join(base, "tree", f["rel"]), f)
    for k, ln in enumerate(tree["links"]):
        target = os.path.join(base, "outside", ln["target"])
        if k not in dangling:
            write_file(target, ln)
        os.makedirs(os.path.dirname(os.path.join(base, "tree", ln["rel"])), exist_ok=True)
        os.symlink(target, os.path.join(base, "tree", ln["rel"]))
    for dl in tree.get("dirlinks", []):
        tdir = os.path.join(base, "outside", dl["target"])
        for f in dl["files"]:
            write_file(os.path.join(tdir, f["rel"]), f)
        os.makedirs(tdir, exist_ok=True)
        os.symlink(tdir, os.path.join(base, "tree", dl["rel"]))


def call_with_deadline(fn, seconds):
    """run fn in a forked child (own session, so that its pool workers can be killed with it);
    {'status': 'hang'} if it does not come back in time"""
    r, w = os.pipe()
    pid = os.fork()
    if pid == 0:
        try:
            os.setsid()
            os.close(r)
            res = capture(fn)
            with os.fdopen(w, "w") as f:
                json.dump(res, f)
        finally:
            os._exit(0)
    os.close(w)
    data = b""
    end = time.time() + seconds
    hang = False
    while True:
        left = end - time.time()
        if left <= 0:
            hang = True
            break
        ready, _, _ = select.select([r], [], [], left)
        if not ready:
            hang = True
            break
        chunk = os.read(r, 1 << 16)
        if not chunk:
            break
        data += chunk
    os.close(r)
    try:
        os.killpg(pid, signal.SIGKILL)
    except Exception:
        pass
    try:
        os.waitpid(pid, 0)
    except Exception:
        pass
    if hang or not data:
        return {"status": "hang" if hang else "died"}
    return json.loads(data.decode())


def handler(payload):
    from pyndl import corpus
    out = []
    for job in payload["jobs"]:
        if job["kind"] == "read":
            base = job["base"]
            os.makedirs(base)
            path = os.path.join(base, "one.xml.gz")
            write_file(path, job["file"])
            kw = {} if job["bd"] is None else {"break_duration": job["bd"]}
            out.append(capture(lambda: list(corpus.read_clean_gzfile(path, **kw))))
            shutil.rmtree(base, ignore_errors=True)
            continue
        results = []
        hangs = 0
        for run in job["runs"]:
            if hangs >= 2:
                results.append({"status": "skipped", "out": {}})
                continue
            base = run["base"]
            if os.path.exists(base):
                shutil.rmtree(base)
            os.makedirs(base)
            build_tree(base, job["tree"], set(run["dangling"]))
            cwd = os.getcwd()
            directory, outfile = run["directory"], run["outfile"]
            if run.get("chdir"):
                os.chdir(base)
            if run.get("no_dir") == "missing":
                shutil.rmtree(os.path.join(base, "tree"))
            elif run.get("no_dir") == "file":
                shutil.rmtree(os.path.join(base, "tree"))
                with open(os.path.join(base, "tree"), "w") as f:
                    f.write("x")
            for name, text in run.get("pre_existing", {}).items():
                with open(os.path.join(base, "out", name), "wb") as f:
                    f.write(text.encode("utf-8"))
            try:
                res = call_with_deadline(
                    lambda: corpus.create_corpus_from_gz(directory, outfile, n_threads=run["n_threads"]),
                    run.get("deadline", 20))
            finally:
                os.chdir(cwd)
            if res["status"] == "hang":
                hangs += 1
            res["out"] = listing(os.path.join(base, "out"))
            results.append(res)
            shutil.rmtree(base, ignore_errors=True)
        out.append(results)
    return out


if __name__ == "__main__":
    main(handler)
