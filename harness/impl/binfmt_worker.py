"""Binary event format: writer, Python reader and the learner entry points of the scratch pyndl."""
import os
import tempfile

import numpy as np

from implutil import main, capture


def handler(payload):
    from pyndl import preprocess, ndl_parallel, ndl_openmp
    out = []
    wd = tempfile.mkdtemp(prefix="bf-", dir=os.getcwd())
    for k, job in enumerate(payload["jobs"]):
        kind = job["kind"]
        path = os.path.join(wd, "events_0_%d.dat" % k)
        if kind == "write":
            events = [(list(cs), list(os_)) for cs, os_ in job["events"]]
            pol = {0: None, 1: True, 2: False}[job["pol"]]

            def go():
                try:
                    n = preprocess.write_events(iter(events), path, start=job["start"], stop=job["stop"],
                                                remove_duplicates=pol)
                    tag = "return"
                except StopIteration as e:
                    n = e.value[1]
                    tag = "stop"
                data = None
                if os.path.exists(path):
                    with open(path, "rb") as f:
                        data = list(f.read())
                return {"tag": tag, "n": n, "file": data}
            res = capture(go)
            if res["status"] == "raise":
                res["file_exists"] = os.path.exists(path)
            out.append(res)
            if os.path.exists(path):
                os.remove(path)
        elif kind == "consts":
            # the running module's numbers and word helpers (validates what tools/py2coq.py reads from the text)
            out.append(capture(lambda: {
                "magic": int(preprocess.MAGIC_NUMBER), "version": int(preprocess.CURRENT_VERSION),
                "with_freq": int(preprocess.CURRENT_VERSION_WITH_FREQ),
                "to_bytes": [list(preprocess.to_bytes(n)) for n in job["words"]],
                "to_integer": [int(preprocess.to_integer(bytes(b))) for b in job["strings"]]}))
        elif kind == "read":
            with open(path, "wb") as f:
                f.write(bytes(job["bytes"]))
            out.append(capture(lambda: [[list(c), list(o)] for c, o in preprocess.read_binary_file(path)]))
            os.remove(path)
        elif kind == "entry":
            paths = []
            for i, bs in enumerate(job["files"]):
                p = os.path.join(wd, "chunk_%d_%d.dat" % (k, i))
                with open(p, "wb") as f:
                    f.write(bytes(bs))
                paths.append(p)
            n_out, n_cue, dim = job["n_out"], job["n_cue"], 3
            ent = job["entry"]

            def go():
                if ent == "bb_threading":
                    W = np.zeros((n_out, n_cue))
                    ndl_parallel.learn_inplace_binary_to_binary(paths, 0.5, 0.25, 0.125, 1.0, W,
                                                                np.arange(n_out, dtype=np.uint32))
                elif ent == "bb_openmp":
                    W = np.zeros((n_out, n_cue))
                    ndl_openmp.learn_inplace_binary_to_binary(paths, 0.5, 0.25, 0.125, 1.0, W,
                                                              np.arange(n_out, dtype=np.uint32),
                                                              job.get("chunksize", 2), job.get("n_jobs", 2))
                elif ent == "b2r_openmp":
                    W = np.zeros((dim, n_cue))
                    ov = np.ones((n_out, dim))
                    ndl_openmp.learn_inplace_binary_to_real(paths, 0.25, ov, W, job.get("chunksize", 2),
                                                            job.get("n_jobs", 2))
                elif ent == "r2b_openmp":
                    W = np.zeros((n_out, dim))
                    cv = np.ones((n_cue, dim))
                    ndl_openmp.learn_inplace_real_to_binary(paths, 0.25, 0.125, 1.0, cv, W,
                                                            job.get("chunksize", 2), job.get("n_jobs", 2))
                elif ent == "r2r_openmp":
                    W = np.zeros((dim, dim))
                    cv = np.ones((n_cue, dim))
                    ov = np.ones((n_out, dim))
                    ndl_openmp.learn_inplace_real_to_real(paths, 0.25, cv, ov, W,
                                                          job.get("chunksize", 2), job.get("n_jobs", 2))
                else:
                    raise RuntimeError(ent)
                return "ok"
            out.append(capture(go))
            for p in paths:
                os.remove(p)
        elif kind == "wh_kernel":
            # one of the three Widrow-Hoff kernels on hand-made chunk files (events without cues or outcomes included)
            paths = []
            for i, bs in enumerate(job["files"]):
                p = os.path.join(wd, "whchunk_%d_%d.dat" % (k, i))
                with open(p, "wb") as f:
                    f.write(bytes(bs))
                paths.append(p)
            fr = lambda nd: nd[0] / nd[1]
            tab = lambda t: np.array([[fr(x) for x in row] for row in t], dtype=np.float64)
            fl = job["flavour"]

            def go():
                W = np.zeros(tuple(job["shape"]))
                if fl == "b2r":
                    ndl_openmp.learn_inplace_binary_to_real(paths, fr(job["eta"]), tab(job["ov"]), W,
                                                            job["chunksize"], job["n_jobs"])
                elif fl == "r2b":
                    ndl_openmp.learn_inplace_real_to_binary(paths, fr(job["b1"]), fr(job["b2"]), fr(job["lam"]),
                                                            tab(job["cv"]), W, job["chunksize"], job["n_jobs"])
                else:
                    ndl_openmp.learn_inplace_real_to_real(paths, fr(job["eta"]), tab(job["cv"]), tab(job["ov"]), W,
                                                          job["chunksize"], job["n_jobs"])
                return [[float(x) for x in row] for row in W]
            out.append(capture(go))
            for p in paths:
                os.remove(p)
        else:
            raise ValueError(kind)
    return out


if __name__ == "__main__":
    main(handler)
