"""Runs Rescorla-Wagner learners of the scratch pyndl on a batch of jobs."""
import os
import tempfile

import numpy as np

from implutil import (main, capture, write_event_file, data_array_cells, weight_dict_cells,
                      fast_poll, from_ratio, ratio)


def to_da(cells):
    import xarray as xr
    vals = np.array([[from_ratio(v) for v in row] for row in cells["values"]], dtype=np.float64)
    vals = vals.reshape((len(cells["outcomes"]), len(cells["cues"])))
    return xr.DataArray(vals, coords=[("outcomes", cells["outcomes"]), ("cues", cells["cues"])],
                        attrs=dict(cells.get("attrs", {})))


def amplify(seed):
    """make thread interleavings around the work queue of method='threading' frequent and varied:
    tiny switch interval, and a queue whose empty()/get() yield for a random while"""
    import random
    import sys
    import time
    import queue
    from pyndl import ndl
    sys.setswitchinterval(1e-6)
    rnd = random.Random(seed)

    class YieldingQueue(queue.Queue):
        def empty(self):
            r = super().empty()
            time.sleep(rnd.choice([0, 0, 1e-5, 1e-4, 1e-3]))
            return r

        def get(self, *a, **k):
            time.sleep(rnd.choice([0, 0, 1e-5, 1e-4, 1e-3]))
            return super().get(*a, **k)
    ndl.Queue = YieldingQueue


def run_job(job, workdir):
    from pyndl import ndl
    kind = job["kind"]
    if kind == "chain":
        return capture(lambda: run_chain(job, workdir))
    if kind == "slice_list":
        return capture(lambda: ndl.slice_list(list(job["list"]), job["n"]))
    if job.get("amplify") is not None:
        amplify(job["amplify"])
    events = [(list(cs), list(os_)) for cs, os_ in job.get("events", [])]
    pol = {0: None, 1: True, 2: False}[job.get("pol", 0)]
    if kind == "dict_ndl":
        alphas = job["alpha"]
        if isinstance(alphas, dict):
            alphas = {k: from_ratio(v) for k, v in alphas.items()}
        else:
            alphas = from_ratio(alphas)
        betas = (from_ratio(job["beta1"]), from_ratio(job["beta2"]))
        lam = from_ratio(job["lam"])
        if job.get("as_file"):
            path = os.path.join(workdir, "ev.tab.gz")
            write_event_file(path, events)
            ev = path
        elif job.get("as_generator"):
            ev = (e for e in events)
        else:
            ev = events
        w0 = None
        if job.get("weights") is not None:
            w0 = to_da(job["weights"])

        def go():
            w = ndl.dict_ndl(ev, alphas, betas, lam, weights=w0, remove_duplicates=pol,
                             make_data_array=bool(job.get("make_data_array")))
            if job.get("make_data_array"):
                return data_array_cells(w)
            return weight_dict_cells(w)
        return capture(go)
    if kind == "ndl":
        path = os.path.join(workdir, "ev.tab.gz")
        write_event_file(path, events, freq=job.get("freq"))
        betas = (from_ratio(job["beta1"]), from_ratio(job["beta2"]))
        w0 = None
        if job.get("weights") is not None:
            w0 = to_da(job["weights"])
        kw = {}
        if "events_per_file" in job:
            kw["events_per_temporary_file"] = job["events_per_file"]

        def go():
            src = (e for e in [(list(cs), list(os_)) for cs, os_ in events]) if job.get("as_generator") else path
            w = ndl.ndl(src, from_ratio(job["alpha"]), betas, from_ratio(job["lam"]),
                        method=job["method"], weights=w0, n_jobs=job.get("n_jobs", 2),
                        n_outcomes_per_job=job.get("n_outcomes_per_job", 10),
                        remove_duplicates=pol, temporary_directory=workdir, **kw)
            return data_array_cells(w, select=job.get("select"))
        return capture(go)
    if kind == "kernel":
        from pyndl import ndl_parallel, ndl_openmp
        paths = []
        for i, bs in enumerate(job["files"]):
            p = os.path.join(workdir, "events_0_%d.dat" % i)
            with open(p, "wb") as f:
                f.write(bytes(bs))
            paths.append(p)
        n_rows, n_cols = job["shape"]
        W = np.zeros((n_rows, n_cols), dtype=np.float64)
        for o, c, v in job.get("cells", []):
            W[o, c] = from_ratio(v)
        allo = np.array(job["all_outcomes"], dtype=np.uint32)
        a, b1, b2, la = (from_ratio(job[k]) for k in ("alpha", "beta1", "beta2", "lam"))

        def go():
            if job["entry"] == "threading":
                ndl_parallel.learn_inplace_binary_to_binary(paths, a, b1, b2, la, W, allo)
            else:
                ndl_openmp.learn_inplace_binary_to_binary(paths, a, b1, b2, la, W, allo,
                                                          job["chunksize"], job["n_jobs"])
            return [[ratio(W[o, c]) for c in job["cols"]] for o in job["rows"]]
        return capture(go)
    raise ValueError(kind)


def snapshot(w):
    """deep, library-independent snapshot of a weights argument"""
    import xarray as xr
    if w is None:
        return None
    if isinstance(w, xr.DataArray):
        return ("da", w.values.copy().tobytes(), [str(d) for d in w.dims],
                {d: [str(x) for x in w.coords[d].values.tolist()] for d in w.dims}, dict(w.attrs))
    return ("wd", {o: dict(row) for o, row in w.items()}, dict(w.attrs))


def run_chain(job, workdir):
    """parts: list of dicts(learner, events, pol) run one after the other through weights="""
    from pyndl import ndl
    p = job["p"]
    alpha, betas, lam = from_ratio(p["alpha"]), (from_ratio(p["beta1"]), from_ratio(p["beta2"])), from_ratio(p["lam"])
    pol = {0: None, 1: True, 2: False}[job.get("pol", 0)]
    w = None
    if job.get("weights") is not None:
        w = to_da(job["weights"])
    mutated = []
    for k, part in enumerate(job["parts"]):
        events = [(list(cs), list(os_)) for cs, os_ in part["events"]]
        before = snapshot(w)
        lrn = part["learner"]
        if lrn in ("dict", "dict_da"):
            if part.get("as_file"):
                path = os.path.join(workdir, "part%d.tab.gz" % k)
                write_event_file(path, events)
                ev = path
            else:
                ev = events
            w2 = ndl.dict_ndl(ev, alpha, betas, lam, weights=w, remove_duplicates=pol,
                              make_data_array=(lrn == "dict_da"))
        else:
            path = os.path.join(workdir, "part%d.tab.gz" % k)
            write_event_file(path, events)
            w2 = ndl.ndl(path, alpha, betas, lam, method=lrn.split("_")[1], weights=w,
                         n_jobs=part.get("n_jobs", 2), n_outcomes_per_job=part.get("n_outcomes_per_job", 3),
                         remove_duplicates=pol, temporary_directory=workdir)
        after = snapshot(w)
        if before != after:
            mutated.append(k)
        w = w2
    import xarray as xr
    res = data_array_cells(w) if isinstance(w, xr.DataArray) else weight_dict_cells(w)
    res["mutated_arguments"] = mutated
    return res


def handler(payload):
    if payload.get("fast_poll", True):
        fast_poll()
    out = []
    # every job of this process works in the SAME directory path (emptied in between): the files of consecutive calls
    # have the same names and other contents, so anything a call remembers about a path is put to the test
    import shutil
    wd = os.path.join(os.getcwd(), "jobdir")
    for i, job in enumerate(payload["jobs"]):
        shutil.rmtree(wd, ignore_errors=True)
        os.mkdir(wd)
        out.append(run_job(job, wd))
    shutil.rmtree(wd, ignore_errors=True)
    return out


if __name__ == "__main__":
    main(handler)
