"""create_event_file of the scratch pyndl on corpora written by the harness; the gzip file is read back."""
import gzip
import os
import tempfile
import warnings

from implutil import main, capture
from c09_allowed import make_allowed


def read_lines(path):
    with gzip.open(path, "rb") as f:
        text = f.read().decode("utf-8")
    if text == "":
        return {"lines": [], "final_newline": True}
    fin = text.endswith("\n")
    body = text[:-1] if fin else text
    return {"lines": [[ord(c) for c in l] for l in body.split("\n")], "final_newline": fin}


def eol(seed, i):
    """line terminator of corpus line i: universal newlines make \\n, \\r\\n and a bare \\r equivalent"""
    if seed is None:
        return "\n"
    h = (seed * 1000003 + i * 7919) % 10
    return {0: "\r\n", 1: "\r"}.get(h, "\n")


def handler(payload):
    from pyndl import preprocess
    warnings.simplefilter("ignore")
    out = []
    wd = tempfile.mkdtemp(prefix="c09-", dir=os.getcwd())
    for k, job in enumerate(payload["jobs"]):
        # the same two paths for every job of this process (removed in between): what a call remembers about a path
        # must not survive it
        corpus = os.path.join(wd, "corpus.txt")
        target = os.path.join(wd, "events.tab.gz")
        with open(corpus, "w", encoding="utf-8", newline="") as f:
            for i, l in enumerate(job["lines"]):
                f.write("".join(map(chr, l)) + eol(job.get("eol_seed"), i))
        before = None
        if job["exists"]:
            with open(target, "wb") as f:
                f.write(b"previous content %d" % k)
            before = open(target, "rb").read()
        kw = dict(allowed_symbols=make_allowed(job["allowed"]), context_structure=job["context"],
                  event_structure=job["event"], event_options=tuple(job["event_options"]),
                  cue_structure=job["cue"], lower_case=job["lower"], remove_duplicates=job["dedup"])
        res = capture(lambda: preprocess.create_event_file(corpus, target, **kw))
        if job["exists"]:
            res["unchanged"] = os.path.isfile(target) and open(target, "rb").read() == before
        elif res["status"] == "ok":
            res["value"] = read_lines(target)
        else:
            res["target_exists_after_error"] = os.path.exists(target)
        out.append(res)
        for p in (corpus, target):
            if os.path.exists(p):
                os.remove(p)
    return out


if __name__ == "__main__":
    main(handler)
