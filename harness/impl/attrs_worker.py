"""C16: chains of learner calls continued through `weights=`; reports the
attributes after every call, the CPython str() of the arguments (oracles of the
model), and a netCDF round trip of the final weights.  No model logic here."""
import getpass
import os
import socket
import tempfile
import warnings

import numpy as np

from implutil import main, capture, write_event_file, fast_poll, from_ratio

warnings.simplefilter("ignore")


def environment():
    import cython
    import pandas as pd
    import xarray as xr
    import pyndl
    return {"host": socket.gethostname(), "user": getpass.getuser(), "pyndl": pyndl.__version__,
            "numpy": np.__version__, "pandas": pd.__version__, "xarray": xr.__version__,
            "cython": cython.__version__}


def number(spec):
    """{'kind': 'float'|'int'|'np32'|'np64', 'v': [n, d]} -> the Python object handed to the learner"""
    v = from_ratio(spec["v"])
    k = spec["kind"]
    if k == "float":
        return float(v)
    if k == "int":
        return int(v)
    if k == "np32":
        return np.float32(v)
    if k == "np64":
        return np.float64(v)
    raise ValueError(k)


def vectors(names, dims, dim_name, row_name, seed):
    """deterministic small float64 matrix rows=names, C-contiguous"""
    import xarray as xr
    n, m = len(names), len(dims)
    vals = np.zeros((n, m), dtype=np.float64)
    for i in range(n):
        for j in range(m):
            vals[i, j] = ((i * 7 + j * 3 + seed) % 5 - 2) / 4.0
    return xr.DataArray(np.ascontiguousarray(vals), coords=[(row_name, list(names)), (dim_name, list(dims))])


def snapshot_attrs(w):
    if w is None:
        return None
    a = getattr(w, "attrs", None)
    if a is None:
        return None
    return {str(k): v for k, v in a.items()}


def jsonable_attrs(a):
    out, bad = {}, []
    for k, v in a.items():
        if not isinstance(k, str) or not isinstance(v, str):
            bad.append([repr(k), type(v).__name__])
            out[str(k)] = str(v)
        else:
            out[k] = v
    return out, bad


class FakeClock:
    """Test-side clock for pyndl.ndl / pyndl.wh (like fast_poll: no source hook): the
    start/stop readings and the date of one call are dictated by the harness, so that
    date, cpu_time and wall_time become comparable values instead of oracles."""

    def __init__(self, spec):
        import time as _time
        self.spec = spec
        self.k = {"cpu": 0, "wall": 0}
        self.sleep = _time.sleep

    def _next(self, which):
        v = self.spec[which][self.k[which] % 2]
        self.k[which] += 1
        return from_ratio(v)

    def perf_counter(self):
        return self._next("wall")

    def process_time(self):
        return self._next("cpu")

    def strftime(self, fmt):
        return self.spec["date"]


def run_call(call, weights, workdir, idx):
    from pyndl import ndl, wh
    if call.get("clock") is None:
        return run_call_(call, weights, workdir, idx)
    # pin the clock the learners read, whichever way they reach it (`import time` or `from time import ...`)
    import time as _time
    clock = FakeClock(call["clock"])
    for name in dir(_time):
        if not name.startswith("__") and not hasattr(clock, name):
            setattr(clock, name, getattr(_time, name))
    saved = []
    for mod in (ndl, wh):
        if hasattr(mod, "time"):
            saved.append((mod, "time", mod.time))
            mod.time = clock
        for fn in ("perf_counter", "process_time", "strftime"):
            if hasattr(mod, fn):
                saved.append((mod, fn, getattr(mod, fn)))
                setattr(mod, fn, getattr(clock, fn))
    try:
        return run_call_(call, weights, workdir, idx)
    finally:
        for mod, name, value in saved:
            setattr(mod, name, value)


def run_call_(call, weights, workdir, idx):
    """-> (result object, record)"""
    import xarray as xr
    from pyndl import ndl, wh
    learner = call["learner"]
    events = [(list(cs), list(os_)) for cs, os_ in call["events"]]
    sub = os.path.join(workdir, call.get("subdir", "d%d" % idx))
    os.makedirs(sub, exist_ok=True)
    path = os.path.join(sub, call["file"])
    write_event_file(path, events, freq=call.get("freq"))
    pol = {0: None, 1: True, 2: False}[call.get("pol", 0)]
    rec = {"path": path}
    kw_par = dict(n_jobs=call.get("n_jobs", 2), remove_duplicates=pol, temporary_directory=workdir,
                  events_per_temporary_file=call.get("epf", 10000000))
    before = snapshot_attrs(weights)

    if learner == "ndl":
        alpha = number(call["alpha"])
        betas = (number(call["beta1"]), number(call["beta2"]))
        lam = number(call["lam"])
        method = call["method"]
        rec.update({"alpha_s": str(alpha), "alpha_is_pynum": isinstance(alpha, (float, int)),
                    "betas_s": str(betas), "lambda_s": str(lam), "method_s": str(method)})
        if call.get("input") == "generator":
            ev = (e for e in events_expanded(events, call.get("freq")))
            rec["path"] = None                       # a spool file of the call itself
        else:
            ev = path
        w = ndl.ndl(ev, alpha, betas, lam, method=method, weights=weights,
                    n_outcomes_per_job=call.get("n_outcomes_per_job", 10), **kw_par)
    elif learner == "wh_bb":
        eta = number(call["eta"])
        # wh.wh without vectors calls ndl.ndl(events, 1.0, (eta, eta), 1.0, ...)
        rec.update({"alpha_s": str(1.0), "alpha_is_pynum": True, "betas_s": str((eta, eta)),
                    "lambda_s": str(1.0), "method_s": str(call["method"])})
        w = wh.wh(path, eta, method=call["method"], weights=weights, **kw_par)
    elif learner == "dict_ndl":
        a = call["alpha"]
        if a["kind"] == "dict":
            alphas = {c: from_ratio(v) for c, v in a["v"].items()}
            rec["alpha_s"] = str(alphas)
        else:
            alphas = number(a)
            rec["alpha_s"] = None                    # replaced by a defaultdict inside dict_ndl
        rec["alpha_is_pynum"] = False
        betas = (number(call["beta1"]), number(call["beta2"]))
        lam = number(call["lam"])
        rec.update({"betas_s": str(betas), "lambda_s": str(lam), "method_s": "None"})
        if call.get("input") == "list":
            ev = events_expanded(events, call.get("freq"))
            rec["path"] = ""
        else:
            ev = path
        w = ndl.dict_ndl(ev, alphas, betas, lam, weights=weights, remove_duplicates=pol,
                         make_data_array=bool(call.get("make_data_array")))
    elif learner in ("wh_b2r", "wh_r2b", "wh_r2r"):
        eta = number(call["eta"])
        cv = ov = None
        if learner in ("wh_r2b", "wh_r2r"):
            cv = vectors(call["cue_names"], call["cue_dims"], "cue_vector_dimensions", "cues", call.get("vseed", 0))
        if learner in ("wh_b2r", "wh_r2r"):
            ov = vectors(call["outcome_names"], call["outcome_dims"], "outcome_vector_dimensions", "outcomes",
                         call.get("vseed", 0) + 1)
        if learner == "wh_r2b":
            # _wh_real_to_binary: ndl._attributes(events, n, 'cue_vectors', (eta, eta), 1.0, ...)
            rec.update({"alpha_s": "cue_vectors", "alpha_is_pynum": False, "betas_s": str((eta, eta)),
                        "lambda_s": str(1.0)})
        else:
            rec.update({"alpha_s": "", "alpha_is_pynum": False, "betas_s": "", "lambda_s": str(eta)})
        rec["method_s"] = str(call["method"])
        w = wh.wh(path, eta, cue_vectors=cv, outcome_vectors=ov, method=call["method"], weights=weights, **kw_par)
    elif learner == "dict_wh":
        eta = number(call["eta"])
        cv = vectors(call["cue_names"], call["cue_dims"], "cue_vector_dimensions", "cues", call.get("vseed", 0))
        ov = vectors(call["outcome_names"], call["outcome_dims"], "outcome_vector_dimensions", "outcomes",
                     call.get("vseed", 0) + 1)
        rec.update({"alpha_s": "", "alpha_is_pynum": False, "betas_s": "", "lambda_s": str(eta), "method_s": "None"})
        if call.get("input") == "list":
            ev = events_expanded(events, call.get("freq"))
            rec["path"] = ""
        else:
            ev = path
        w = wh.dict_wh(ev, eta, cv, ov, weights=weights, remove_duplicates=pol,
                       make_data_array=bool(call.get("make_data_array")))
    else:
        raise ValueError(learner)

    attrs, bad = jsonable_attrs(w.attrs)
    rec["attrs"] = attrs
    rec["non_string"] = bad
    rec["result_type"] = type(w).__name__
    rec["dims"] = list(getattr(w, "dims", ()))
    rec["input_attrs_unchanged"] = snapshot_attrs(weights) == before
    rec["same_object"] = w is weights
    return w, rec


def events_expanded(events, freq):
    if freq is None:
        return list(events)
    out = []
    for e, f in zip(events, freq):
        out += [e] * f
    return out


def coords_of(da):
    return {d: [x if isinstance(x, str) else repr(x) for x in da.coords[d].values.tolist()] for d in da.dims}


def bits(da):
    return np.ascontiguousarray(np.asarray(da.values, dtype=np.float64)).view(np.int64)


def same_labelled(a, b):
    """bitwise equality of two DataArrays cell by cell through their labels"""
    if list(a.dims) != list(b.dims):
        return False, "dims %r %r" % (a.dims, b.dims)
    ca, cb = coords_of(a), coords_of(b)
    for d in a.dims:
        if sorted(ca[d]) != sorted(cb[d]) or len(set(ca[d])) != len(ca[d]):
            return False, "labels of %s differ: %r %r" % (d, ca[d][:10], cb[d][:10])
    idx = [[cb[d].index(x) for x in ca[d]] for d in a.dims]
    vb = np.asarray(b.values, dtype=np.float64)[np.ix_(*idx)]
    va = np.asarray(a.values, dtype=np.float64)
    if not np.array_equal(np.ascontiguousarray(va).view(np.int64), np.ascontiguousarray(vb).view(np.int64)):
        return False, "values differ"
    return True, ""


def netcdf_roundtrip(w, cont, workdir, idx):
    import xarray as xr
    p = os.path.join(workdir, "weights_%d_Ü.nc" % idx)
    w.to_netcdf(p)
    with xr.open_dataarray(p) as loaded:
        loaded.load()
    res = {"dims_equal": list(w.dims) == list(loaded.dims),
           "coords_before": coords_of(w), "coords_after": coords_of(loaded),
           "values_equal": bool(w.shape == loaded.shape and np.array_equal(bits(w), bits(loaded))),
           "dtype_after": str(loaded.dtype),
           "attrs_before": jsonable_attrs(w.attrs)[0], "attrs_after": jsonable_attrs(loaded.attrs)[0],
           "attr_types_after": sorted({type(v).__name__ for v in loaded.attrs.values()}),
           "name_before": repr(w.name), "name_after": repr(loaded.name)}
    if cont is not None:
        w1, r1 = run_call(cont, w, workdir, 1000 + idx)
        w2, r2 = run_call(cont, loaded, workdir, 2000 + idx)
        ok, why = same_labelled(w1, w2)
        res["cont_equal"] = ok
        res["cont_why"] = why
        res["cont_attrs_orig"] = r1["attrs"]
        res["cont_attrs_loaded"] = r2["attrs"]
        res["cont_rec"] = {k: v for k, v in r1.items() if k != "attrs"}
        # the file is the reference: neither the saved weights nor the loaded ones may have been changed by
        # the calls that continued from them
        with xr.open_dataarray(p) as again:
            again.load()
        ok1, why1 = same_labelled(w, again)
        ok2, why2 = same_labelled(loaded, again)
        res["orig_still_equals_file"] = ok1
        res["loaded_still_equals_file"] = ok2
        res["still_why"] = why1 or why2
    os.remove(p)
    return res


def start_weights(spec):
    import xarray as xr
    if spec is None:
        return None
    vals = np.zeros((len(spec["outcomes"]), len(spec["cues"])), dtype=np.float64)
    return xr.DataArray(vals, coords=[("outcomes", list(spec["outcomes"])), ("cues", list(spec["cues"]))],
                        attrs=dict(spec["attrs"]))


class OversizedAttributes(Exception):
    pass


def run_chain(chain, workdir, idx):
    def go():
        w = start_weights(chain.get("start"))
        recs = []
        for j, call in enumerate(chain["calls"]):
            w, rec = run_call(call, w, workdir, idx * 10 + j)
            recs.append(rec)
            # an attribute of a handful of calls has a few hundred characters; a value beyond 10^5 characters means the
            # history grows out of proportion (a tree under test may double it per call): stop before it fills memory
            big = {str(k): len(v) for k, v in getattr(w, "attrs", {}).items() if isinstance(v, str) and len(v) > 100000}
            if big:
                raise OversizedAttributes("after call %d of the chain the attribute values have %r characters" % (j + 1, big))
        out = {"calls": recs}
        if chain.get("netcdf"):
            out["netcdf"] = netcdf_roundtrip(w, chain.get("cont"), workdir, idx)
        return out
    return capture(go)


def handler(payload):
    fast_poll()
    out = {"env": environment(), "chains": []}
    for i, chain in enumerate(payload["chains"]):
        with tempfile.TemporaryDirectory(prefix="c16-%d-" % i, dir=os.getcwd()) as wd:
            out["chains"].append(run_chain(chain, wd, i))
    return out


if __name__ == "__main__":
    main(handler)
