"""C15: end-to-end pipelines of the scratch pyndl.  Everything (corpus, options, rules, parameters,
n_jobs) is decided by the harness; this worker only calls the package and reports what every
stage left behind:

  producer   preprocess.create_event_file (corpus text)  |  io.events_to_file (lists)
  filter     preprocess.filter_event_file
  reader     io.events_from_file          (of the producer's and of the filter's file)
  counting   count.cues_outcomes          (of both files)
  learners   ndl.dict_ndl, ndl.ndl(threading), ndl.ndl(openmp)   on the final file
  activation activation.activation of the final file under every returned weight table

Strings travel as code point lists, floats as exact [numerator, denominator].  No model logic here."""
import gzip
import os
import tempfile
import warnings

from implutil import main, capture, fast_poll, ratio, from_ratio, data_array_cells, weight_dict_cells
from c09_allowed import make_allowed
from filter_worker import filter_kwargs


def eol(seed, i):
    """line terminator of corpus line i: universal newlines make \\n, \\r\\n and a bare \\r equivalent"""
    if seed is None:
        return "\n"
    h = (seed * 1000003 + i * 7919) % 10
    return {0: "\r\n", 1: "\r"}.get(h, "\n")


def s_of(cps):
    return "".join(map(chr, cps))


def cps_of(s):
    return [ord(c) for c in s]


def read_text(path):
    with open(path, "rb") as f:
        return cps_of(gzip.decompress(f.read()).decode("utf-8"))


def ev_out(events):
    return [[[cps_of(t) for t in cs], [cps_of(t) for t in os_]] for cs, os_ in events]


def counter_items(c):
    return [[cps_of(k), int(v)] for k, v in c.items()]


def cells_of(w):
    res = data_array_cells(w) if hasattr(w, "coords") else weight_dict_cells(w)
    res["outcomes"] = [cps_of(o) for o in res["outcomes"]]
    res["cues"] = [cps_of(c) for c in res["cues"]]
    ne = None
    attrs = getattr(w, "attrs", None)
    if attrs and "number_events" in attrs:
        ne = str(attrs["number_events"]).strip()
    res["number_events"] = ne
    return res


def activations_of(act):
    """DataArray (outcomes x events) or dict outcome -> array  ->  {'outcomes': [...], 'values': rows}"""
    if hasattr(act, "coords"):
        outs = [o if isinstance(o, str) else str(o) for o in act.coords["outcomes"].values.tolist()]
        vals = act.values.tolist()
        return {"dims": list(act.dims), "outcomes": [cps_of(o) for o in outs],
                "values": [[ratio(v) for v in row] for row in vals]}
    outs = list(act.keys())
    return {"dims": ["outcomes", "events"], "outcomes": [cps_of(o) for o in outs],
            "values": [[ratio(v) for v in act[o].tolist()] for o in outs]}


def read_and_count(io, count, path, n_jobs):
    back = capture(lambda: ev_out(list(io.events_from_file(path))))

    def cnt():
        n, cues, outs = count.cues_outcomes(path, n_jobs=n_jobs)
        return {"n_events": int(n), "cues": counter_items(cues), "outcomes": counter_items(outs)}
    return back, capture(cnt)


def run_job(job, wd):
    from pyndl import preprocess, io, count, ndl, activation
    out = {}
    f1 = os.path.join(wd, "stage1.tab.gz")
    f2 = os.path.join(wd, "stage2.tab.gz")
    pol = {0: None, 1: True, 2: False}[job["pol"]]

    # ---- producer -----------------------------------------------------------------------
    prod = job["producer"]
    if prod["kind"] == "create":
        corpus = os.path.join(wd, "corpus.txt")
        with open(corpus, "w", encoding="utf-8", newline="") as f:
            for i, l in enumerate(prod["lines"]):
                f.write(s_of(l) + eol(prod.get("eol_seed"), i))
        kw = dict(allowed_symbols=make_allowed(prod["allowed"]), context_structure=prod["context"],
                  event_structure=prod["event"], event_options=tuple(prod["event_options"]),
                  cue_structure=prod["cue"], lower_case=prod["lower"], remove_duplicates=prod["dedup"])
        res = capture(lambda: preprocess.create_event_file(corpus, f1, **kw))
    else:
        events = [([s_of(t) for t in cs], [s_of(t) for t in os_]) for cs, os_ in prod["events"]]
        if prod.get("form") == "generator":
            cont = (e for e in events)
        elif prod.get("form") == "strings":
            cont = [("_".join(cs), "_".join(os_)) for cs, os_ in events]
        else:
            cont = [list(e) for e in events]
        kw = {}
        if prod["compatible"]:
            kw["columns"] = ("Cues", "Outcomes", "Frequency")
        res = capture(lambda: io.events_to_file(cont, f1, compatible=bool(prod["compatible"]), **kw))
    out["producer"] = {k: v for k, v in res.items() if k != "value"}
    if res["status"] != "ok":
        return out
    out["text1"] = read_text(f1)
    out["back1"], out["count1"] = read_and_count(io, count, f1, job["count_jobs"])

    # ---- filter -------------------------------------------------------------------------
    flt = job["filter"]
    if flt.get("skip"):
        # the three-column file of the ndl2-compatible writer is not an input of the filter (it raises on it,
        # and leaving the pool by an exception can block in Pool.terminate): reader, counting and learners
        # take the writer's file directly
        res = {"status": "skipped"}
    else:
        res = capture(lambda: preprocess.filter_event_file(f1, f2, n_jobs=flt["n_jobs"], chunksize=flt["chunksize"],
                                                           **filter_kwargs(flt["rc"], flt["ro"])))
    out["filter"] = {k: v for k, v in res.items() if k != "value"}
    if res["status"] == "ok":
        out["text2"] = read_text(f2)
        out["back2"], out["count2"] = read_and_count(io, count, f2, job["count_jobs"])
        final = f2
    else:
        final = f1          # e.g. the three-column file of the compatible writer: the filter refuses it
    out["final"] = "stage2" if final == f2 else "stage1"

    # ---- learners and activations on the final file ---------------------------------------
    if not job.get("learn"):
        return out
    lp = job["learn"]
    alpha, lam = from_ratio(lp["alpha"]), from_ratio(lp["lam"])
    betas = (from_ratio(lp["beta1"]), from_ratio(lp["beta2"]))
    learners = {}
    for name in lp["learners"]:
        def go(name=name):
            if name == "dict_ndl":
                w = ndl.dict_ndl(final, alpha, betas, lam, remove_duplicates=pol)
            elif name == "dict_ndl_da":
                w = ndl.dict_ndl(final, alpha, betas, lam, remove_duplicates=pol, make_data_array=True)
            else:
                w = ndl.ndl(final, alpha, betas, lam, method=name.split(":")[1], n_jobs=lp["n_jobs"],
                            n_outcomes_per_job=lp["n_outcomes_per_job"], remove_duplicates=pol,
                            temporary_directory=wd,
                            events_per_temporary_file=lp.get("events_per_file", 10000000))
            r = {"weights": cells_of(w)}
            if lp.get("activation", True):
                n_act = 1 if not hasattr(w, "coords") else lp["activation_jobs"]
                r["activation"] = capture(lambda: activations_of(
                    activation.activation(final, w, n_jobs=n_act, remove_duplicates=pol)))
            return r
        learners[name] = capture(go)
    out["learners"] = learners
    out["leftover"] = sorted(x for x in os.listdir(wd)
                             if x not in ("corpus.txt", "stage1.tab.gz", "stage2.tab.gz"))
    return out


def handler(payload):
    warnings.simplefilter("ignore")
    if payload.get("fast_poll", True):
        fast_poll()
    out = []
    # the same directory path for every pipeline of this process (emptied in between), see rw_worker
    import shutil
    wd = os.path.join(os.getcwd(), "jobdir")
    for i, job in enumerate(payload["jobs"]):
        shutil.rmtree(wd, ignore_errors=True)
        os.mkdir(wd)
        out.append(run_job(job, wd))
    shutil.rmtree(wd, ignore_errors=True)
    return out


if __name__ == "__main__":
    main(handler)
