"""Runs ndl.ndl(method='threading') of the scratch pyndl under a schedule CHOSEN BY THE HARNESS: the names
`threading`, `Queue` and `ndl_parallel` in the namespace of pyndl.ndl are replaced (test side, no source hook)
by instrumented stand-ins whose operations take one TURN each, and a turn is granted only to the thread the
schedule names next while every other worker thread is parked.  One turn = one step of the Coq machine
QueueFaults.fstep (model 205):

    lock acquire (free: taken; held: nothing happens)   PStart -> PLocked | PStart
    queue.empty()                                       PLocked -> PNonEmpty | PDone (+ release, thread ends)
    queue.get()                                         PNonEmpty -> PGot
    lock release after a get                            PGot -> PWork
    the kernel call on the item runs (or raises)        the item's action | the thread dies
    the kernel call returns                             PWork -> PStart, item finished

No model logic here: the worker reports what the real code did (which thread ran which item in which order, which
items were reported finished, what the call raised) and whether every thread ended within the schedule."""
import os
import tempfile
import threading as real_threading
import time
import types
import queue as real_queue

from implutil import main, capture, write_event_file, fast_poll

TURN_TIMEOUT = 30.0


class Stuck(Exception):
    pass


class Scheduler:
    def __init__(self, schedule, n_threads):
        self.schedule = list(schedule)
        self.n = n_threads
        self.pos = 0
        self.cv = real_threading.Condition(real_threading.Lock())
        self.index = {}            # thread ident -> worker index
        self.state = {}            # worker index -> 'running' | 'waiting' | 'done'
        self.created = 0
        self.free_run = False      # schedule exhausted (or stuck): let everything go
        self.exhausted_with_waiters = False
        self.stuck = None
        self.turns = 0             # turns granted to live threads
        self.noop = 0              # schedule entries that named an ended / non-existent thread

    # -- registration ------------------------------------------------------
    def new_worker(self):
        with self.cv:
            k = self.created
            self.created += 1
            self.state[k] = "running"     # until it reaches its first turn request
            return k

    def me(self):
        return self.index.get(real_threading.get_ident())

    def bind(self, k):
        with self.cv:
            self.index[real_threading.get_ident()] = k
            self.cv.notify_all()

    def finish(self, k):
        with self.cv:
            self.state[k] = "done"
            self.cv.notify_all()

    # -- turns -------------------------------------------------------------
    def _skip(self):
        # entries naming a thread that has ended, or that does not exist, are no-op steps of the model
        while self.pos < len(self.schedule):
            t = self.schedule[self.pos]
            if t >= self.n or self.state.get(t) == "done":
                self.pos += 1
                self.noop += 1
            else:
                break

    def turn(self, k):
        """park until the schedule names k and no other worker is running; then run until the next request"""
        if k is None:
            return
        deadline = time.time() + TURN_TIMEOUT
        with self.cv:
            self.state[k] = "waiting"
            self.cv.notify_all()
            while True:
                if self.free_run:
                    self.state[k] = "running"
                    return
                self._skip()
                if self.pos >= len(self.schedule):
                    self.exhausted_with_waiters = True
                    self.free_run = True
                    self.cv.notify_all()
                    continue
                others_running = any(v == "running" for j, v in self.state.items() if j != k)
                all_created = self.created >= self.n
                if self.schedule[self.pos] == k and not others_running and all_created:
                    self.pos += 1
                    self.turns += 1
                    self.state[k] = "running"
                    return
                if not self.cv.wait(timeout=0.5) and time.time() > deadline:
                    self.stuck = "thread %d waited %.0f s at schedule position %d (next: %r, states: %r)" % (
                        k, TURN_TIMEOUT, self.pos, self.schedule[self.pos:self.pos + 4], dict(self.state))
                    self.free_run = True
                    self.cv.notify_all()


def install(sched, fail_items, log):
    import pyndl.ndl as N
    real_parallel = N.ndl_parallel
    items = {}                 # content of a queued array -> item index (order of put)

    class Lock:
        def __init__(self):
            self._lock = real_threading.Lock()
            self.release_takes_turn = {}

        def acquire(self):
            k = sched.me()
            if k is None:
                self._lock.acquire()
                return True
            while True:
                sched.turn(k)
                if self._lock.acquire(blocking=False):
                    return True
                if sched.free_run:
                    self._lock.acquire()
                    return True
                # held by another thread: this turn was a step that changes nothing

        def release(self):
            k = sched.me()
            if k is not None and self.release_takes_turn.pop(k, False):
                sched.turn(k)
            self._lock.release()

        def __enter__(self):
            self.acquire()
            return self

        def __exit__(self, *a):
            self.release()
            return False

    locks = []

    def make_lock():
        lk = Lock()
        locks.append(lk)
        return lk

    class Queue(real_queue.Queue):
        def put(self, item, *a, **kw):
            if hasattr(item, "tolist"):
                items[tuple(int(x) for x in item.tolist())] = len(items)
            return real_queue.Queue.put(self, item, *a, **kw)

        def empty(self):
            sched.turn(sched.me())
            return real_queue.Queue.empty(self)

        def get(self, block=True, timeout=None):
            k = sched.me()
            sched.turn(k)
            # a blocking get() on an empty queue would block for ever: report instead (the model's PBlocked); a
            # non-blocking one (get_nowait, block=False, a timeout) raises queue.Empty as the real queue does
            try:
                data = real_queue.Queue.get(self, block=False)
            except real_queue.Empty:
                log.append(["blocked_in_get" if (block and timeout is None) else "nonblocking_get_empty", k])
                raise
            if k is not None:
                for lk in locks:
                    lk.release_takes_turn[k] = True
                log.append(["got", k, items.get(tuple(int(x) for x in data.tolist()), -1) if hasattr(data, "tolist") else -2])
            return data

    class Thread:
        def __init__(self, target=None, **kw):
            self.k = sched.new_worker()
            k = self.k

            def run():
                sched.bind(k)
                try:
                    target()
                finally:
                    sched.finish(k)
            self._t = real_threading.Thread(target=run, **kw)

        def start(self):
            self._t.start()

        def join(self, *a):
            return self._t.join(*a)

    def learn(binary_files, alpha, beta1, beta2, lambda_, weights, data):
        k = sched.me()
        item = items.get(tuple(int(x) for x in data.tolist()), -1)
        sched.turn(k)                                     # the item's action runs
        if item in fail_items:
            log.append(["raised", k, item])
            raise RuntimeError("injected failure in item %d" % item)
        real_parallel.learn_inplace_binary_to_binary(binary_files, alpha, beta1, beta2, lambda_, weights, data)
        log.append(["ran", k, item])
        sched.turn(k)                                     # the call returns: the item is finished
        log.append(["finished", k, item])

    # replace whichever of these names the module uses (`import threading` or `from threading import Thread, Lock`,
    # `from queue import Queue` or `import queue`): the import style is not behaviour
    saved = {}

    def patch(name, value):
        if hasattr(N, name):
            saved[name] = getattr(N, name)
            setattr(N, name, value)
    patch("threading", types.SimpleNamespace(Lock=make_lock, Thread=Thread))
    patch("Thread", Thread)
    patch("Lock", make_lock)
    patch("Queue", Queue)
    patch("queue", types.SimpleNamespace(Queue=Queue, Empty=real_queue.Empty, Full=real_queue.Full))
    patch("ndl_parallel", types.SimpleNamespace(learn_inplace_binary_to_binary=learn))
    if hasattr(N, "learn_inplace_binary_to_binary"):
        patch("learn_inplace_binary_to_binary", learn)

    def uninstall():
        for name, value in saved.items():
            setattr(N, name, value)
    return uninstall, items


def run_job(job, workdir):
    from pyndl import ndl
    path = os.path.join(workdir, "ev.tab.gz")
    write_event_file(path, [(list(c), list(o)) for c, o in job["events"]])
    sched = Scheduler(job["schedule"], job["n_threads"])
    log = []
    uninstall, items = install(sched, set(job.get("fail_items", [])), log)
    t0 = time.time()
    try:
        res = capture(lambda: ndl.ndl(path, 0.25, (0.5, 0.5), 1.0, method="threading", n_jobs=job["n_threads"],
                                      n_outcomes_per_job=job["n_outcomes_per_job"], remove_duplicates=True,
                                      temporary_directory=workdir).shape)
    finally:
        uninstall()
    out = {"status": res["status"], "log": log, "n_items": len(items),
           "schedule_exhausted_with_live_threads": sched.exhausted_with_waiters, "stuck": sched.stuck,
           "turns": sched.turns, "noop_entries": sched.noop, "schedule_used": sched.pos,
           "wall_s": round(time.time() - t0, 2)}
    if res["status"] != "ok":
        out["type"] = res.get("type")
        out["message"] = str(res.get("msg"))[:300]
    return out


def handler(payload):
    fast_poll()
    out = []
    for i, job in enumerate(payload["jobs"]):
        with tempfile.TemporaryDirectory(prefix="sched%d-" % i, dir=os.getcwd()) as wd:
            out.append(run_job(job, wd))
    return out


if __name__ == "__main__":
    main(handler)
