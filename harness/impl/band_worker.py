"""C20: bandsample (shuffle pinned to a recorded permutation) and save_counter/load_counter
of the scratch pyndl.  Everything random is decided by the harness."""
import collections
import os
import random
import tempfile

from implutil import main, capture


def handler(payload):
    from pyndl import preprocess as pp
    from pyndl import count as cnt
    out = []
    wd = tempfile.mkdtemp(prefix="band-", dir=os.getcwd())
    real_shuffle = random.Random.shuffle
    for k, job in enumerate(payload["jobs"]):
        kind = job["kind"]
        if kind == "band":
            perm = job["perm"]
            calls = []

            def pinned(self, x, *a, **kw):
                calls.append(len(x))
                if len(x) == len(perm):
                    x[:] = [x[i] for i in perm]

            items = [(w, f) for w, f in job["population"]]
            pop = collections.Counter() if job.get("as_counter") else {}
            for w, f in items:
                pop[w] = f
            before = list(pop.items())

            def go():
                random.Random.shuffle = pinned
                try:
                    kw = {}
                    if "cutoff" in job:
                        kw["cutoff"] = job["cutoff"]
                    if "sample_size" in job:
                        s = pp.bandsample(pop, job["sample_size"], **kw)
                    else:
                        s = pp.bandsample(pop, **kw)
                finally:
                    random.Random.shuffle = real_shuffle
                return {"sample": [[w, f] for w, f in s.items()], "type": type(s).__name__}
            res = capture(go)
            res["shuffle_calls"] = calls
            res["arg_unchanged"] = (list(pop.items()) == before and len(pop) == len(items))
            out.append(res)
        elif kind == "counter":
            path = os.path.join(wd, "c%d.tab" % k)

            def go():
                c = collections.Counter()
                for key, v in job["items"]:
                    c[key] = v
                before = list(c.items())
                if "header" in job:
                    cnt.save_counter(c, path, header=job["header"])
                else:
                    cnt.save_counter(c, path)
                with open(path, "rb") as f:
                    text = f.read().decode("utf-8")
                res = {"text": text, "arg_unchanged": list(c.items()) == before}
                res["load"] = capture(lambda: [[a, b] for a, b in cnt.load_counter(path).items()])
                if res["load"]["status"] == "ok":
                    res["load_type"] = type(cnt.load_counter(path)).__name__
                if "items2" in job:
                    # a history in one process: ANOTHER table (same keys, same file size) saved to the SAME path
                    # straight away and loaded again must come back as that table
                    c2 = collections.Counter()
                    for key, v in job["items2"]:
                        c2[key] = v
                    if "header" in job:
                        cnt.save_counter(c2, path, header=job["header"])
                    else:
                        cnt.save_counter(c2, path)
                    res["load2"] = capture(lambda: [[a, b] for a, b in cnt.load_counter(path).items()])
                return res
            out.append(capture(go))
            if os.path.exists(path):
                os.remove(path)
        elif kind == "load":
            path = os.path.join(wd, "l%d.tab" % k)
            with open(path, "wb") as f:
                f.write(job["text"].encode("utf-8"))
            out.append(capture(lambda: [[a, b] for a, b in cnt.load_counter(path).items()]))
            os.remove(path)
        else:
            raise ValueError(kind)
    return out


if __name__ == "__main__":
    main(handler)
