"""Build ONE pyndl extension in the current directory (a scratch copy of /repo).
Mirrors /repo/build.py (same flags) but one extension per process so the three
can be compiled in parallel.  usage: build_one.py <ndl_parallel|ndl_openmp|correlation_openmp>"""
import os, shutil, sys
from distutils.core import Distribution, Extension
from Cython.Build import build_ext, cythonize
import numpy
name = sys.argv[1]
omp = name != "ndl_parallel"
ext = Extension("pyndl." + name, ["pyndl/%s.pyx" % name],
                extra_compile_args=['-fopenmp'] if omp else [],
                extra_link_args=['-fopenmp'] if omp else [],
                include_dirs=[numpy.get_include()])
ext_modules = cythonize([ext], include_path=["pyndl"], quiet=True)
dist = Distribution({"ext_modules": ext_modules})
cmd = build_ext(dist)
cmd.build_temp = "build/temp_" + name
cmd.build_lib = "build/lib_" + name
cmd.ensure_finalized()
cmd.run()
for output in cmd.get_outputs():
    shutil.copyfile(output, os.path.relpath(output, cmd.build_lib))
