"""Shared machinery of the /verif checks.

* scratch rebuild of /repo's working tree (never touches /repo, /verif, /tmp)
* running the executable Coq models (extracted OCaml driver, and a slice
  re-evaluated by the Coq kernel's VM as a cross-check of extraction)
* compiling the property file of a check and reading `Print Assumptions`
* evidence / replay / known-findings bookkeeping
"""
import contextlib
import fcntl
import glob
import hashlib
import json
import os
import random
import re
import shutil
import subprocess
import sys
import tempfile
import time
from fractions import Fraction

VERIF = os.path.dirname(os.path.dirname(os.path.abspath(__file__)))
REPO = os.environ.get("PV_REPO", "/repo")
COQ = os.path.join(VERIF, "coq")
OCAML = os.path.join(VERIF, "ocaml")
DRIVER = os.path.join(OCAML, "pvmodels")
IMPL_PY = "/venv/bin/python"
SCRATCH_ROOT = "/var/tmp"
NCPU = os.cpu_count() or 4
MODEL_TIMEOUT = 1500

ALLOWED_AXIOMS = {
    # standard-library axioms a property theorem may depend on (named in DESIGN.md §4)
    "functional_extensionality_dep",
    "ClassicalDedekindReals.sig_forall_dec",
    "ClassicalDedekindReals.sig_not_dec",
    "Classical_Prop.classic",
    "Eqdep.Eq_rect_eq.eq_rect_eq",
    "JMeq.JMeq_eq",
    "ProofIrrelevance.proof_irrelevance",
}

FORBIDDEN = re.compile(
    r"^\s*(Admitted|Axiom|Axioms|Parameter|Parameters|Conjecture|Admit Obligations|"
    r"Unset Guard Checking|Unset Positivity Checking|Unset Universe Checking)\b|"
    r"\badmit\b|bypass_check|-type-in-type|-impredicative-set", re.M)


def log(*a):
    print(*a, file=sys.stderr, flush=True)


# ----------------------------------------------------------------------------
# scratch build of the implementation
# ----------------------------------------------------------------------------

# ------------------------------------------------------------------------------------------------------------------
# source fingerprint: the quick tier was calibrated (case counts, generators) on one particular tree.  When the
# source a check is run against differs from that baseline in more than comments / docstrings / blank lines, the quick
# tier runs with the generators of the thorough tier ("escalation"): a changed tree is exactly where sampling the
# model<->code tie more densely pays.  The baseline is committed (harness/source_baseline.json, written by
# tools/gen_baseline.py from /repo's HEAD) and is never written at run time.  Nothing is ever *reported* because of a
# fingerprint mismatch; it only selects how much is explored.
def _norm_source(path):
    import ast
    import hashlib
    with open(path, "rb") as f:
        raw = f.read()
    if path.endswith(".py"):
        try:
            tree = ast.parse(raw.decode("utf-8"))
            for node in ast.walk(tree):
                body = getattr(node, "body", None)
                if (isinstance(node, (ast.Module, ast.FunctionDef, ast.ClassDef, ast.AsyncFunctionDef)) and body
                        and isinstance(body[0], ast.Expr) and isinstance(getattr(body[0], "value", None), ast.Constant)
                        and isinstance(body[0].value.value, str)):
                    body[0].value.value = ""
            data = ast.dump(tree, annotate_fields=False).encode()
        except Exception:
            data = raw
    else:
        lines = []
        for ln in raw.decode("utf-8", "replace").splitlines():
            ln = ln.split("#", 1)[0].rstrip()
            if ln:
                lines.append(ln)
        data = "\n".join(lines).encode()
    return hashlib.sha256(data).hexdigest()


def source_fingerprint(pkg_dir):
    fp = {}
    for name in sorted(os.listdir(pkg_dir)):
        if name.endswith((".py", ".pyx", ".pxd")):
            fp[name] = _norm_source(os.path.join(pkg_dir, name))
    return fp


LEARNER_FILES = {"ndl.py", "ndl_parallel.pyx", "ndl_parallel.pxd", "ndl_openmp.pyx", "error_codes.pxd", "preprocess.py",
                 "io.py", "count.py", "__init__.py"}
# source files a property's behaviour can depend on (escalation looks at these only)
RELEVANT = {
    "C01": LEARNER_FILES, "C02": LEARNER_FILES, "C13": LEARNER_FILES,
    "C03": LEARNER_FILES | {"wh.py"}, "C04": LEARNER_FILES | {"wh.py"}, "C05": LEARNER_FILES | {"wh.py"},
    "C17": LEARNER_FILES | {"wh.py"}, "C16": LEARNER_FILES | {"wh.py"}, "C08": LEARNER_FILES | {"wh.py"},
    "C14": LEARNER_FILES | {"wh.py"},
    "C06": {"preprocess.py", "ndl_parallel.pyx", "ndl_parallel.pxd", "ndl_openmp.pyx", "error_codes.pxd", "__init__.py"},
    "C07": {"io.py", "count.py", "ndl.py", "preprocess.py", "__init__.py"},
    "C09": {"preprocess.py", "io.py", "__init__.py"}, "C10": {"preprocess.py", "io.py", "__init__.py"},
    "C11": {"count.py", "io.py", "__init__.py"},
    "C12": {"activation.py", "ndl.py", "io.py", "__init__.py"},
    "C15": LEARNER_FILES | {"activation.py"},
    "C18": {"correlation.py", "correlation_openmp.pyx", "__init__.py"},
    "C19": {"corpus.py", "io.py", "__init__.py"},
    "C20": {"preprocess.py", "count.py", "__init__.py"},
}


def source_changed(pkg_dir):
    """Files of the tree under test whose normalised content differs from the committed baseline."""
    try:
        with open(os.path.join(VERIF, "harness", "source_baseline.json")) as f:
            base = json.load(f)["files"]
    except Exception:
        return ["<no baseline>"]
    cur = source_fingerprint(pkg_dir)
    return sorted(k for k in set(base) | set(cur) if base.get(k) != cur.get(k))


def _limit_worker_memory():
    # a tree under test may allocate without bound (state that grows from call to call): the worker must get a
    # MemoryError - which is reported with the call - instead of the kernel's OOM killer choosing a victim, possibly
    # the harness itself.  RLIMIT_DATA counts private anonymous memory only (heap, not file-backed memmaps).
    import resource
    lim = int(os.environ.get("PV_WORKER_DATA_LIMIT_GB", "4")) * 1024 ** 3
    try:
        soft, hard = resource.getrlimit(resource.RLIMIT_DATA)
        resource.setrlimit(resource.RLIMIT_DATA, (lim if hard == resource.RLIM_INFINITY else min(lim, hard), hard))
    except Exception:
        pass


class Scratch:
    """A private copy of /repo's *working tree* with freshly compiled extensions."""

    def __init__(self):
        self.dir = None
        self.tmp = None
        self.build_s = 0.0

    def __enter__(self):
        t0 = time.time()
        self.dir = tempfile.mkdtemp(prefix="pyndl-verif.", dir=SCRATCH_ROOT)
        src = os.path.join(REPO, "pyndl")
        dst = os.path.join(self.dir, "pyndl")
        shutil.copytree(src, dst, ignore=shutil.ignore_patterns("*.so", "*.c", "__pycache__"))
        procs = []
        for name in ("ndl_parallel", "ndl_openmp", "correlation_openmp"):
            procs.append((name, subprocess.Popen(
                [IMPL_PY, os.path.join(VERIF, "harness", "build_one.py"), name],
                cwd=self.dir, stdout=subprocess.PIPE, stderr=subprocess.STDOUT)))
        for name, p in procs:
            out, _ = p.communicate()
            if p.returncode != 0:
                self.__exit__(None, None, None)
                raise RuntimeError("build of %s from %s failed:\n%s" % (name, REPO, out.decode()[-3000:]))
        shutil.rmtree(os.path.join(self.dir, "build"), ignore_errors=True)
        self.tmp = os.path.join(self.dir, "tmp")
        os.mkdir(self.tmp)
        self.build_s = time.time() - t0
        return self

    def __exit__(self, *exc):
        if self.dir and os.path.isdir(self.dir):
            shutil.rmtree(self.dir, ignore_errors=True)
        return False

    def env(self, hashseed=0, extra=None):
        env = dict(os.environ)
        env.update({
            "PYTHONPATH": self.dir + os.pathsep + os.path.join(VERIF, "harness", "impl"),
            "PYTHONHASHSEED": str(hashseed),
            "PYTHONUTF8": "1",
            "TMPDIR": self.tmp,
            "QUANTLING_PYNDL_VERIF": "1",
            "PYTHONDONTWRITEBYTECODE": "1",
            "OMP_WAIT_POLICY": "passive",
        })
        env.pop("PYTHONSTARTUP", None)
        if extra:
            env.update(extra)
        return env

    def workdir(self, name):
        d = os.path.join(self.dir, "work-" + name)
        os.makedirs(d, exist_ok=True)
        return d

    def run_worker(self, script, payload, *, hashseed=0, timeout=600, extra_env=None):
        """Run harness/impl/<script>.py with the scratch pyndl on a JSON payload.
        Returns (status, result) with status in {'ok','timeout','crash'}."""
        wd = tempfile.mkdtemp(prefix="job-", dir=self.dir)
        inp = os.path.join(wd, "in.json")
        outp = os.path.join(wd, "out.json")
        with open(inp, "w") as f:
            json.dump(payload, f)
        cmd = [IMPL_PY, os.path.join(VERIF, "harness", "impl", script + ".py"), inp, outp]
        # a private system temporary directory per invocation: concurrent invocations must not see each
        # other's temporary files (the C17 listings would blame a call for its neighbour's files)
        own_tmp = os.path.join(wd, "systmp")
        os.mkdir(own_tmp)
        env = self.env(hashseed, extra_env)
        env["TMPDIR"] = own_tmp
        try:
            p = subprocess.Popen(cmd, cwd=wd, env=env,
                                 stdout=subprocess.PIPE, stderr=subprocess.STDOUT,
                                 start_new_session=True, preexec_fn=_limit_worker_memory)
            try:
                out, _ = p.communicate(timeout=timeout)
            except subprocess.TimeoutExpired:
                _kill_group(p)
                out, _ = p.communicate()
                return "timeout", {"output": out.decode(errors="replace")[-2000:]}
            if p.returncode != 0 or not os.path.exists(outp):
                return "crash", {"returncode": p.returncode, "output": out.decode(errors="replace")[-4000:]}
            with open(outp) as f:
                return "ok", json.load(f)
        finally:
            shutil.rmtree(wd, ignore_errors=True)

    def run_workers(self, script, payloads, *, timeout=600, jobs=None, hashseeds=None, extra_env=None,
                    max_timeouts=None):
        """Run several worker invocations concurrently; keeps order.  With max_timeouts=k, invocations that
        have not started when k others already missed their deadline are not run (status 'skipped'): a tree
        on which everything hangs is reported after a few deadlines instead of hundreds."""
        from concurrent.futures import ThreadPoolExecutor
        import threading
        jobs = jobs or min(NCPU, max(1, len(payloads)))
        hashseeds = hashseeds or [0] * len(payloads)
        lock = threading.Lock()
        n_timeouts = [0]

        def one(pl, hs):
            if max_timeouts is not None:
                with lock:
                    if n_timeouts[0] >= max_timeouts:
                        return "skipped", {}
            st, res = self.run_worker(script, pl, hashseed=hs, timeout=timeout, extra_env=extra_env)
            if st != "ok" and isinstance(pl, dict) and isinstance(pl.get("jobs"), list) and len(pl["jobs"]) > 1:
                # a batch of independent jobs died or hung as a whole (one bad job, or a runtime deadlock of the
                # worker process - CPython forks pools from threaded processes): run its jobs one per process; the
                # batch counts as done if every job then completes, otherwise the failure is reported with the job
                one_timeout = min(timeout, 300)
                outs = []
                for k, job in enumerate(pl["jobs"]):
                    pl1 = dict(pl)
                    pl1["jobs"] = [job]
                    st1, r1 = self.run_worker(script, pl1, hashseed=hs, timeout=one_timeout, extra_env=extra_env)
                    if st1 != "ok" or not isinstance(r1, list) or len(r1) != 1:
                        res = dict(res) if isinstance(res, dict) else {"detail": res}
                        res.update({"failed_job_index": k, "failed_job_status": st1,
                                    "failed_job_detail": r1 if st1 != "ok" else "unexpected result shape"})
                        break
                    outs.append(r1[0])
                else:
                    RETRIED_BATCHES.append({"script": script, "first_status": st, "jobs": len(pl["jobs"])})
                    return "ok", outs
            if st == "timeout":
                with lock:
                    n_timeouts[0] += 1
            return st, res
        with ThreadPoolExecutor(jobs) as ex:
            futs = [ex.submit(one, pl, hs) for pl, hs in zip(payloads, hashseeds)]
            return [f.result() for f in futs]


# batches of jobs that failed as a whole and completed job by job (reported in the evidence)
RETRIED_BATCHES = []


def _kill_group(p):
    import signal
    try:
        os.killpg(os.getpgid(p.pid), signal.SIGKILL)
    except Exception:
        try:
            p.kill()
        except Exception:
            pass


# ----------------------------------------------------------------------------
# Coq side
# ----------------------------------------------------------------------------
@contextlib.contextmanager
def coq_lock():
    os.makedirs(os.path.join(VERIF, ".locks"), exist_ok=True)
    with open(os.path.join(VERIF, ".locks", "coq.lock"), "w") as f:
        fcntl.flock(f, fcntl.LOCK_EX)
        try:
            yield
        finally:
            fcntl.flock(f, fcntl.LOCK_UN)


def ensure_built():
    """Full .vo build of the Coq project, extraction and the OCaml driver (idempotent)."""
    with coq_lock():
        r = subprocess.run(["bash", os.path.join(VERIF, "setup.sh")], cwd=VERIF,
                           stdout=subprocess.PIPE, stderr=subprocess.STDOUT, timeout=3600)
        if r.returncode != 0:
            raise RuntimeError("coq/ocaml build failed:\n" + r.stdout.decode()[-4000:])


def scan_forbidden():
    """No Admitted/Axiom/Parameter/... anywhere in the development."""
    hits = []
    for path in sorted(glob.glob(os.path.join(COQ, "theories", "**", "*.v"), recursive=True) +
                       glob.glob(os.path.join(COQ, "src", "*.v"))):
        src = open(path).read()
        # drop comments (non-nested is enough for our sources; nested handled by loop)
        prev = None
        while prev != src:
            prev = src
            src = re.sub(r"\(\*[^*(]*(?:\*(?!\))[^*(]*|\((?!\*)[^*(]*)*\*\)", " ", src)
        for m in FORBIDDEN.finditer(src):
            hits.append("%s: %s" % (os.path.relpath(path, VERIF), m.group(0).strip()))
    return hits


def check_props(prop_id):
    """Compile coq/theories/Props/<id>.v and read its `Print Assumptions` output.
    Returns dict(theorems=[{name, assumptions}], ok, output)."""
    src = os.path.join(COQ, "theories", "Props", prop_id + ".v")
    text = open(src).read()
    names = re.findall(r"^\s*Theorem\s+([A-Za-z0-9_']+)", text, re.M)
    printed = re.findall(r"^\s*Print Assumptions\s+([A-Za-z0-9_'.]+)\s*\.", text, re.M)
    with coq_lock():
        r = subprocess.run(["timeout", "600", "coqc", "-Q", "theories", "PV",
                            os.path.join("theories", "Props", prop_id + ".v")],
                           cwd=COQ, stdout=subprocess.PIPE, stderr=subprocess.STDOUT)
    out = r.stdout.decode(errors="replace")
    res = {"ok": r.returncode == 0, "output": out[-6000:], "theorems": [], "src": os.path.relpath(src, VERIF)}
    if r.returncode != 0:
        res["theorems"] = [{"name": n, "assumptions": None} for n in names]
        return res
    # split the output into one block per Print Assumptions, in order
    blocks = re.split(r"(?=^Closed under the global context|^Axioms:)", out, flags=re.M)
    blocks = [b for b in blocks if b.startswith("Closed under") or b.startswith("Axioms:")]
    if len(blocks) != len(printed) or set(printed) != set(names):
        res["ok"] = False
        res["output"] += "\n[harness] %d theorems, %d Print Assumptions, %d outputs" % (
            len(names), len(printed), len(blocks))
        return res
    for name, b in zip(printed, blocks):
        if b.startswith("Closed under"):
            axs = []
        else:
            axs = re.findall(r"^([A-Za-z_][A-Za-z0-9_.']*)\s*:", b[len("Axioms:"):], re.M)
        bad = [a for a in axs if a not in ALLOWED_AXIOMS and a.split(".")[-1] not in
               {x.split(".")[-1] for x in ALLOWED_AXIOMS}]
        res["theorems"].append({"name": name, "assumptions": axs, "disallowed": bad})
        if bad:
            res["ok"] = False
    return res



# ------------------------------------------------------------------------------------------------------------------
# source-derived models: tools/py2coq.py translates a few pure functions of the tree under test into MiniPy terms
# (coq/theories/MiniPy.v); coq/src/Src<Group>Proofs.v / Src<Group>Props.v hold the theorems about the generated terms and are
# re-compiled against the term generated from the CURRENT source on every run.
SRC_GROUPS = {"Slice": "slice_list_src", "Band": "bandsample_loop_src", "Fmt": "fmt_consts_src", "FmtShape": "fmt_shape_src", "Names": "chunk_names_src"}


def source_derived(sc, group, cases_v=None):
    """Returns dict(translated, reason, ok, theorems=[{name, assumptions, source_derived}], output, cases_output).
    cases_v: optional Coq text (after the imports) evaluated against the generated term (vm_compute)."""
    term = SRC_GROUPS[group]
    d = os.path.join(sc.dir, "srcgen-" + group)
    os.makedirs(d, exist_ok=True)
    res = {"group": group, "term": term, "translated": False, "reason": None, "ok": False, "theorems": [], "output": "",
           "cases_output": None}
    props_src = os.path.join(COQ, "src", "Src%sProps.v" % group)
    names = re.findall(r"^\s*Theorem\s+([A-Za-z0-9_']+)", open(props_src).read(), re.M)
    res["theorems"] = [{"name": n, "assumptions": None, "source_derived": True} for n in names]
    # the translator's own self-test first: 31 constructs outside the fragment must be refused (fail-closed)
    st = subprocess.run([sys.executable, os.path.join(VERIF, "tools", "test_py2coq.py"), os.path.join(sc.dir, "pyndl")],
                        stdout=subprocess.PIPE, stderr=subprocess.STDOUT)
    res["translator_self_test"] = st.stdout.decode(errors="replace").strip()[-300:]
    if st.returncode != 0 and "does not translate" not in res["translator_self_test"]:
        res["reason"] = "translator self-test failed: " + res["translator_self_test"]
        return res
    r = subprocess.run([sys.executable, os.path.join(VERIF, "tools", "py2coq.py"), os.path.join(sc.dir, "pyndl"),
                        os.path.join(d, "GenSrc.v")], stdout=subprocess.PIPE, stderr=subprocess.STDOUT)
    try:
        report = json.loads(r.stdout.decode().strip().splitlines()[-1])[term]
    except Exception:
        res["reason"] = "translator failed: " + r.stdout.decode(errors="replace")[-500:]
        return res
    res["translated"] = bool(report.get("translated"))
    res["reason"] = report.get("reason")
    res["constants"] = report.get("constants")
    if not res["translated"]:
        return res
    for name in ("Src%sProofs.v" % group, "Src%sProps.v" % group):
        shutil.copy(os.path.join(COQ, "src", name), d)
    if cases_v is not None:
        with open(os.path.join(d, "SrcCases.v"), "w") as f:
            f.write("From Coq Require Import ZArith List QArith Qcanon.\nFrom PV Require Import MiniPy.\n"
                    "From PVGen Require Import GenSrc.\nImport ListNotations.\nOpen Scope Z_scope.\n" + cases_v)
    out_all = ""
    files = ["GenSrc.v", "Src%sProofs.v" % group, "Src%sProps.v" % group] + (["SrcCases.v"] if cases_v is not None else [])
    for name in files:
        r = subprocess.run(["timeout", "600", "coqc", "-w", "-overriding-logical-loadpath,-notation-overridden",
                            "-Q", os.path.join(COQ, "theories"), "PV", "-Q", ".", "PVGen", name],
                           cwd=d, stdout=subprocess.PIPE, stderr=subprocess.STDOUT)
        out = r.stdout.decode(errors="replace")
        if name == "SrcCases.v":
            res["cases_output"] = out
            if r.returncode != 0:
                res["cases_output"] = "coqc failed: " + out[-1500:]
            continue
        out_all += out
        if r.returncode != 0:
            res["output"] = out_all[-3000:]
            if name == "GenSrc.v" or cases_v is None:
                return res
            # the proofs broke: still evaluate the cases against the generated term
            continue
        if name.endswith("Props.v"):
            blocks = re.split(r"(?=^Closed under the global context|^Axioms:)", out, flags=re.M)
            blocks = [b for b in blocks if b.startswith("Closed under") or b.startswith("Axioms:")]
            if len(blocks) == len(names):
                ok = True
                for t, b in zip(res["theorems"], blocks):
                    axs = [] if b.startswith("Closed under") else \
                        re.findall(r"^([A-Za-z_][A-Za-z0-9_.']*)\s*:", b[len("Axioms:"):], re.M)
                    t["assumptions"] = axs
                    bad = [a for a in axs if a not in ALLOWED_AXIOMS]
                    if bad:
                        t["disallowed"] = bad
                        ok = False
                res["ok"] = ok
    res["output"] = out_all[-3000:]
    return res



def parse_coq_list(out):
    """the value printed by `Eval vm_compute in (... : list (list Z))` -> list of lists of ints"""
    m = re.search(r"=\s*(\[.*\])\s*:\s*list", out, re.S)
    if not m:
        return None
    txt = m.group(1).replace("%Z", "").replace(";", ",")
    txt = re.sub(r"\s+", " ", txt)
    import ast
    try:
        return ast.literal_eval(txt)
    except Exception:
        return None


def fold_source_derived(ctx, sd, what):
    """Account for a group of source-derived theorems in the evidence.  They are an additional tie (the source text
    itself, translated); the deciding tie of every property is the correspondence of the hand-written model, so a
    source-derived theorem that can no longer be re-established is recorded (obligations > discharged, NOTE line) and
    the function-level correspondence of the same check decides."""
    ctx.props["theorems"] = ctx.props["theorems"] + sd["theorems"]
    ctx.rep.note("source_derived_" + sd["group"].lower(), {
        "function": what, "translated_from_current_source": sd["translated"], "translator_refusal": sd["reason"],
        "translator_self_test": sd.get("translator_self_test"),
        "theorems_rechecked_against_generated_term": sd["ok"],
        "coqc_output_tail": None if sd["ok"] else sd["output"][-1200:]})
    if not sd["ok"]:
        log("NOTE: the source-derived theorems about %s could not be re-established for the current source (%s); "
            "the correspondence of the hand-written model decides" % (
                what, ("translator: " + str(sd["reason"])) if not sd["translated"] else "proofs no longer compile"))



def check_omp_sharing(ctx, module, functions, theorems, observe=False):
    """Every variable written inside an OpenMP work-sharing loop of the generated C code of this build must be private
    (harness/omplib.py): that is the assumption under which the schedule-independence theorems speak about the code."""
    import omplib
    sc, rep = ctx.scratch, ctx.rep
    c_path = os.path.join(sc.dir, "pyndl", module + ".c")
    pyx_path = os.path.join(sc.dir, "pyndl", module + ".pyx")
    if not (os.path.exists(c_path) and os.path.exists(pyx_path)):
        rep.note("omp_sharing_" + module, "generated C file not found: not analysed")
        return
    regions = [r for r in omplib.analyse(c_path, pyx_path) if functions is None or r["function"] in functions]
    rep.note("omp_sharing_" + module, [{k: r[k] for k in ("function", "pyx_line", "written", "shared_and_written")}
                                       for r in regions])
    for r in regions:
        if not r["shared_and_written"]:
            continue
        names = [v.replace("__pyx_v_", "").replace("__pyx_t_", "temporary ") for v in r["shared_and_written"]]
        detail = {"correspondence": "X-omp-sharing", "theorems": theorems, "region": r,
                  "failing_schedule": "two threads run two iterations of the prange loop at %s.pyx:%s at the same time; "
                  "the second thread's write to %s lands between the first thread's write and its use: the first "
                  "thread works on the second one's part (one part trained twice, one never) - a data race on a "
                  "variable that OpenMP shares between the threads of the region" % (module, r["pyx_line"], names)}
        observed = None
        if observe:
            status, res = sc.run_worker("omp_stress_worker", {"budget_s": 12}, timeout=300,
                                        extra_env={"OMP_WAIT_POLICY": "active"})
            observed = res if status == "ok" else {"status": status}
            detail["attempt_to_observe_the_race"] = observed
        seen = bool(observed and observed.get("observed"))
        rep.violation("the OpenMP loop of %s (%s.pyx:%s) writes %s, which the generated code shares between threads%s" % (
            r["function"], module, r["pyx_line"], names,
            ": observed, %d-thread result differs from the 1-thread result" % observed["n_jobs"] if seen else ""),
            detail, no_input=not seen)
        return


def _big_stack():
    # extracted list functions are not tail recursive: give the driver a large stack
    import resource
    soft, hard = resource.getrlimit(resource.RLIMIT_STACK)
    try:
        resource.setrlimit(resource.RLIMIT_STACK, (hard, hard))
    except Exception:
        pass


def run_models(cases, jobs=None):
    """cases: list of (model_id, [ints]).  Returns list of [ints] from the extracted models."""
    if not cases:
        return []
    jobs = jobs or NCPU
    n = len(cases)
    shards = [list(range(i, n, jobs)) for i in range(min(jobs, n))]
    procs = []
    for sh in shards:
        data = "\n".join("%d %s" % (cases[i][0], " ".join(map(str, cases[i][1]))) for i in sh) + "\n"
        p = subprocess.Popen([DRIVER], stdin=subprocess.PIPE, stdout=subprocess.PIPE,
                             preexec_fn=_big_stack)
        procs.append((sh, p, data))
    # feed concurrently
    from concurrent.futures import ThreadPoolExecutor
    out = [None] * n

    def feed(item):
        sh, p, data = item
        try:
            o, _ = p.communicate(data.encode(), timeout=MODEL_TIMEOUT)
        except subprocess.TimeoutExpired:
            p.kill()
            p.communicate()
            raise RuntimeError("model driver did not answer within %d s (case too large for exact arithmetic?)" % MODEL_TIMEOUT)
        if p.returncode != 0:
            raise RuntimeError("model driver failed")
        lines = o.decode().split("\n")
        for i, line in zip(sh, lines):
            out[i] = [int(t) for t in line.split()]
    with ThreadPoolExecutor(len(procs)) as ex:
        list(ex.map(feed, procs))
    return out


def coq_crosscheck(cases, outputs, limit_ints=60000, max_cases=120):
    """Re-evaluate a slice of the cases with the Coq kernel's VM (vm_compute) and
    compare with what the extracted OCaml code returned.  Returns
    (n_checked, mismatching case indices)."""
    picked, total = [], 0
    for i, (c, o) in enumerate(zip(cases, outputs)):
        sz = len(c[1]) + len(o)
        if sz > 8000:
            continue
        if total + sz > limit_ints or len(picked) >= max_cases:
            break
        picked.append(i)
        total += sz
    if not picked:
        return 0, []
    d = tempfile.mkdtemp(prefix="pvcases-", dir=SCRATCH_ROOT)
    try:
        def zl(l):
            return "[" + ";".join(str(x) if x >= 0 else "(%d)" % x for x in l) + "]"
        body = ";\n".join("(%d, %s, %s)" % (cases[i][0], zl(cases[i][1]), zl(outputs[i])) for i in picked)
        src = ("From Coq Require Import ZArith List.\nFrom PV Require Import Run.\nImport ListNotations.\n"
               "Open Scope Z_scope.\n"
               "Definition cases : list (Z * list Z * list Z) := [\n%s].\n"
               "Definition eqzl (a b : list Z) : bool := if list_eq_dec Z.eq_dec a b then true else false.\n"
               "Fixpoint bad (i : nat) (l : list (Z * list Z * list Z)) : list nat :=\n"
               "  match l with [] => [] | (id, inp, out) :: r =>\n"
               "    if eqzl (run_model id inp) out then bad (S i) r else i :: bad (S i) r end.\n"
               "Eval vm_compute in (bad 0 cases).\n") % body
        path = os.path.join(d, "cases.v")
        with open(path, "w") as f:
            f.write(src)
        r = subprocess.run(["timeout", "600", "coqc", "-Q", os.path.join(COQ, "theories"), "PV", path],
                           cwd=d, stdout=subprocess.PIPE, stderr=subprocess.STDOUT)
        out = r.stdout.decode()
        if r.returncode != 0:
            raise RuntimeError("cases.v failed: " + out[-2000:])
        m = re.search(r"=\s*\[(.*?)\]\s*:\s*list nat", out, re.S)
        if not m:
            raise RuntimeError("cannot parse coqc output: " + out[-500:])
        idx = [int(t.replace("%nat", "")) for t in m.group(1).replace("\n", " ").split(";") if t.strip()]
        return len(picked), [picked[i] for i in idx]
    finally:
        shutil.rmtree(d, ignore_errors=True)


# ----------------------------------------------------------------------------
# flat encodings (mirror of coq/theories/Flat.v)
# ----------------------------------------------------------------------------
def wr_list(l):
    return [len(l)] + list(l)


def wr_events(es):
    out = [len(es)]
    for cs, os_ in es:
        out += wr_list(cs) + wr_list(os_)
    return out


class Reader:
    def __init__(self, l):
        self.l, self.i = l, 0

    def int(self):
        v = self.l[self.i]
        self.i += 1
        return v

    def list(self):
        n = self.int()
        v = self.l[self.i:self.i + n]
        self.i += n
        return list(v)

    def events(self):
        n = self.int()
        return [[self.list(), self.list()] for _ in range(n)]

    def rest(self):
        return list(self.l[self.i:])


def frac_of_float(x):
    return Fraction(x)


def dyadic(fr):
    """Fraction -> (num, den) ints"""
    fr = Fraction(fr)
    return fr.numerator, fr.denominator


# ----------------------------------------------------------------------------
# known findings
# ----------------------------------------------------------------------------
def known_findings():
    """Parse /verif/known_findings.txt: open findings as (property, key, text)."""
    path = os.path.join(VERIF, "known_findings.txt")
    open_, fixed = [], []
    if os.path.exists(path):
        for line in open(path):
            line = line.strip()
            if not line or line.startswith("#"):
                continue
            if line.startswith("fixed:"):
                fixed.append(line)
                continue
            m = re.match(r"property=(C\d+)\s+key=(\S+)\s+(.*)", line)
            if m:
                open_.append((m.group(1), m.group(2), m.group(3)))
    return open_, fixed


# ----------------------------------------------------------------------------
# result bookkeeping
# ----------------------------------------------------------------------------
class Report:
    def __init__(self, prop_id, tier, seed):
        self.prop_id, self.tier, self.seed = prop_id, tier, seed
        self.t0 = time.time()
        self.violations = []      # (path, no_input_found)
        self.known = []
        self.coverage = {"evaluations": 0, "distinct_nontrivial": 0, "samples": [],
                         "traces_validated_against_impl": 0}
        self.assumptions = []
        self._distinct = set()
        self.sections = {}

    def lap(self, name):
        """record the wall time since the previous lap under coverage['phase_s']"""
        now = time.time()
        last = getattr(self, "_lap", self.t0)
        self.coverage.setdefault("phase_s", {})[name] = round(now - last, 1)
        self._lap = now

    def note(self, key, value):
        self.coverage[key] = value

    def bump(self, key, n=1):
        self.coverage[key] = self.coverage.get(key, 0) + n

    def hist(self, name, key):
        h = self.coverage.setdefault(name, {})
        key = str(key)
        h[key] = h.get(key, 0) + 1

    def case(self, case_obj, nontrivial=True):
        """count one evaluated case; distinctness by content hash"""
        self.coverage["evaluations"] += 1
        if nontrivial:
            h = hashlib.sha1(json.dumps(case_obj, sort_keys=True, default=str).encode()).hexdigest()
            self._distinct.add(h)
        if len(self.coverage["samples"]) < 3:
            s = json.dumps(case_obj, default=str)
            self.coverage["samples"].append(json.loads(s) if len(s) < 1500 else s[:1500] + "...")

    def violation(self, what, detail, no_input=False):
        os.makedirs(os.path.join(VERIF, "replays"), exist_ok=True)
        blob = json.dumps(detail, sort_keys=True, default=str)
        h = hashlib.sha1(blob.encode()).hexdigest()[:12]
        path = os.path.join(VERIF, "replays", "%s-%s.json" % (self.prop_id, h))
        with open(path, "w") as f:
            json.dump({"property": self.prop_id, "what": what, "seed": self.seed, "tier": self.tier,
                       "no_failing_input_found": no_input, "detail": detail}, f, indent=1, default=str)
        self.violations.append((path, no_input, what))

    def known_finding(self, text):
        self.known.append(text)

    def finish(self, props, trusted_base, rule, extra_assumptions=()):
        cov = self.coverage
        cov["distinct_nontrivial"] = len(self._distinct)
        cov["rule"] = rule
        cov["obligations"] = len(props["theorems"])
        cov["discharged"] = sum(1 for t in props["theorems"]
                                if t["assumptions"] is not None and not t.get("disallowed"))
        cov["checker_cmd"] = ("make -C /verif/coq (full .vo) && coqc -Q theories PV %s  "
                              "[Print Assumptions under every theorem]" % props["src"])
        cov["theorems"] = props["theorems"]
        cov["trusted_base"] = list(trusted_base)
        if RETRIED_BATCHES:
            cov["worker_batches_completed_job_by_job_after_a_batch_failure"] = list(RETRIED_BATCHES)
        ev = {
            "property_id": self.prop_id, "tier": self.tier, "seed": self.seed, "level": "proof",
            "coverage": cov,
            "assumptions": list(extra_assumptions) + self.assumptions,
            "wall_s": round(time.time() - self.t0, 2),
            "violations": len(self.violations),
        }
        evdir = os.environ.get("PV_EVIDENCE_DIR") or os.path.join(VERIF, "evidence")
        os.makedirs(evdir, exist_ok=True)
        with open(os.path.join(evdir, self.prop_id + ".json"), "w") as f:
            json.dump(ev, f, indent=1, default=str)
        for text in self.known:
            print("KNOWN-FINDING: property=%s %s" % (self.prop_id, text))
        for path, no_input, what in self.violations:
            log("violation:", what)
            print("VIOLATION property=%s replay=%s%s" % (
                self.prop_id, path, " no-failing-input-found" if no_input else ""))
        sys.stdout.flush()
        return 1 if self.violations else 0


COMMON_TRUSTED = [
    "Coq 8.16.1 kernel and its VM (vm_compute); no native_compute",
    "extraction with ExtrOcamlBasic only (bool, option, unit, list, prod, sumbool, sumor, andb/orb); "
    "OCaml 4.13.1 + zarith used only for integer I/O in ocaml/driver.ml",
    "case decoding glue coq/theories/Flat.v + Run.v and the Python encoders in harness/",
    "the Python harness (generators, Fraction(float) conversion, comparison)",
    "all of pyndl is modelled, not verified: the tie to /repo is the differential correspondence of this run",
]
