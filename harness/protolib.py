"""X-proto-det: preprocess.create_binary_event_files of the scratch pyndl run under schedules chosen here
(impl/proto_worker.py: a stand-in for multiprocessing.Pool in the namespace of pyndl.preprocess that runs the REAL
conversion jobs and the REAL callbacks in this process, one schedule entry at a time) against the Coq machine
Proto.pstep (model 402) run on the SAME schedule, job results computed by the model from the events.  Compared,
step-aligned: how many jobs were submitted, the order in which their results were delivered, which deliveries were
errors (in order), the number of events returned or the fact that the call raised, whether the call was over when
the schedule was used up, the chunk files left behind - and the exact number of schedule entries the real code needed
(the model must say 'finished' for that prefix and 'not finished' for the prefix one shorter)."""
import core
import rwlib
from core import run_models, wr_events, wr_list, Reader

RULE = ("X-proto-det: the real submit loop, conversion jobs and callbacks of create_binary_event_files are driven entry "
        "by entry by schedules drawn here (submit-first, deliver-eagerly, deliveries in reversed and random order, "
        "entries naming jobs not yet submitted or already delivered, schedules too short to finish) over files of "
        "0..30 events x events_per_file 2..7 (exact multiples and empty files included) x n_jobs 1..3 (throttle "
        "4*n_jobs) x policies, with a repeated cue under remove_duplicates=None at a random position in a third of the "
        "cases; the Coq machine Proto.pstep (model 402) is run on the same schedule; submissions, delivery order, "
        "errors, number_events / raise, the chunk files and the number of schedule entries needed must be equal")
THEOREMS = ["C04_reports_all_events", "C04_protocol_terminates", "C04_conversion_terminates",
            "C05_conversion_fault_raises", "C05_conversion_fault_terminates"]

SUBMIT = -1


def gen_schedule(rng, n_chunks, B, kind):
    K = n_chunks + B + 3                 # jobs that can ever be submitted (C04_protocol_terminates: next <= K + B)
    pre = []
    if kind == "submit_first":
        pre = [SUBMIT] * rng.randint(1, K + 2) + rng.sample(range(K), K)
    elif kind == "eager":
        for k in range(K):
            pre += [SUBMIT, k]
    elif kind == "reversed":
        pre = [SUBMIT] * (B + 1) + list(range(K))[::-1] + [SUBMIT] * B + list(range(K))[::-1]
    elif kind == "random":
        pre = [rng.choice([SUBMIT, SUBMIT] + list(range(K))) for _ in range(rng.randint(0, 6 * K))]
    elif kind == "short":
        return [rng.choice([SUBMIT] + list(range(max(1, n_chunks)))) for _ in range(rng.randint(0, n_chunks + 2))]
    tail = ([SUBMIT] + list(range(K))) * (K + 2)
    return pre + tail


def gen_cases(rng, n, faults):
    cases = []
    kinds = ["submit_first", "eager", "reversed", "random", "random", "short"]
    for k in range(n):
        per = rng.choice([2, 2, 3, 4, 5, 7])
        n_ev = rng.choice([0, 1, per, 2 * per, 3 * per, rng.randint(0, 30), rng.randint(0, 30)])
        n_jobs = rng.choice([1, 1, 2, 3])
        pol = rng.choice([0, 1, 2])
        cues = ["c%d" % i for i in range(5)]
        outs = ["o%d" % i for i in range(4)]
        es = []
        for _ in range(n_ev):
            cs = rng.sample(cues, rng.randint(1, 3))
            os_ = rng.sample(outs, rng.randint(1, 2))
            if pol != 0 and rng.random() < 0.3:
                cs.append(cs[0])
            es.append([cs, os_])
        fault = None
        if n_ev and (faults == "always" or (faults == "some" and k % 3 == 1)):
            pol = 0
            es = [[list(dict.fromkeys(c)), list(dict.fromkeys(o))] for c, o in es]
            fault = rng.randrange(n_ev)
            es[fault][0] = es[fault][0] + [es[fault][0][0]]          # a repeated cue under the default policy
            if rng.random() < 0.3 and n_ev > 1:
                f2 = rng.randrange(n_ev)
                es[f2][1] = es[f2][1] + [es[f2][1][0]]
        n_chunks = n_ev // per + 1
        kind = kinds[k % len(kinds)]
        cases.append({"events": es, "per": per, "n_jobs": n_jobs, "pol": pol, "fault_at": fault, "kind": kind,
                      "schedule": gen_schedule(rng, n_chunks, 4 * n_jobs, kind)})
    return cases


def enc(c, schedule=None):
    no, nc = rwlib.label_sets(c["events"])
    s = c["schedule"] if schedule is None else schedule
    return (402, wr_events(rwlib.events_to_ids(c["events"], no, nc)) + [c["per"], c["pol"], 4 * c["n_jobs"]] + wr_list(s))


def dec(mo):
    rd = Reader(mo)
    d = {"finished": rd.int(), "loop_done": rd.int(), "next": rd.int(), "total": rd.int(), "waiting": rd.int()}
    d["errors"] = rd.list()
    d["deliveries"] = rd.list()
    return d


def run(ctx, n, faults):
    rep, rng, sc = ctx.rep, ctx.rng, ctx.scratch
    cases = gen_cases(rng, n, faults)
    nsh = min(core.NCPU, len(cases))
    shards = [cases[i::nsh] for i in range(nsh)]
    jobs = [{"jobs": [{k: c[k] for k in ("events", "per", "n_jobs", "pol", "schedule")} for c in s]} for s in shards]
    results = sc.run_workers("proto_worker", jobs, timeout=600)
    impl = [None] * len(cases)
    for si, (status, res) in enumerate(results):
        if status != "ok":
            first = res.get("failed_job_index", 0) if isinstance(res, dict) else 0
            for j, job in enumerate(jobs[si]["jobs"]):
                if j < first:
                    continue
                st1, r1 = sc.run_worker("proto_worker", {"jobs": [job]}, timeout=120)
                if st1 != "ok":
                    c = shards[si][j]
                    d = {k: c[k] for k in ("events", "per", "n_jobs", "pol", "kind", "schedule")}
                    rep.case(d, nontrivial=True)
                    rep.violation("controlled schedule: the process running create_binary_event_files %s" % (
                        "did not finish within 120 s" if st1 == "timeout" else "died: %s" % str(r1)[:300]),
                        {"correspondence": "X-proto-det", "theorems": THEOREMS, "case": d}, no_input=True)
                    return len(cases), [], []
            raise RuntimeError("proto_worker failed: %r" % (str(res)[:800],))
        for j, r in enumerate(res):
            impl[si + j * nsh] = r
    encs = [enc(c) for c in cases]
    mouts = run_models(encs)
    pre_enc, pre_idx = [], []
    for i, (c, r) in enumerate(zip(cases, impl)):
        u = r["schedule_used"]
        if not r["schedule_exhausted_with_live_threads"] and not r["stuck"] and u >= 1:
            pre_enc += [enc(c, c["schedule"][:u]), enc(c, c["schedule"][:u - 1])]
            pre_idx.append(i)
    pouts = run_models(pre_enc)
    prefix = {i: (dec(pouts[2 * k])["finished"], dec(pouts[2 * k + 1])["finished"]) for k, i in enumerate(pre_idx)}
    first_broken, first_genuine = None, None
    for i, (c, r, mo) in enumerate(zip(cases, impl, mouts)):
        m = dec(mo)
        d = {k: c[k] for k in ("events", "per", "n_jobs", "pol", "fault_at", "kind", "schedule")}
        rep.case(d, nontrivial=len(c["events"]) >= c["per"])
        rep.hist("proto_schedule_kind", c["kind"])
        rep.hist("proto_fault", "duplicate" if c["fault_at"] is not None else "none")
        rep.hist("proto_exact_multiple", bool(c["events"]) and len(c["events"]) % c["per"] == 0)
        rep.bump("proto_turns", r["turns"])
        log = r["log"]
        n_ev = len(c["events"])
        over = not r["schedule_exhausted_with_live_threads"] and not r["stuck"]
        got = {"finished": 1 if over else 0,
               "next": len([e for e in log if e[0] == "submit"]),
               "deliveries": [e[1] for e in log if e[0] == "deliver"],
               "errors": [e[1] for e in log if e[0] == "deliver" and e[2] == "error" and e[3] != "StopIteration"]}
        # (1) the property itself on the real code, whatever the model says about the steps: a finished call
        #     raises iff an event is faulty, else returns the number of events and leaves exactly the chunks
        prop_bad = None
        if over:
            if c["fault_at"] is not None:
                if r["status"] != "raise":
                    prop_bad = "an event repeats a cue under the default policy but the call returned %r" % (r.get("value"),)
            elif r["status"] != "ok" and r.get("type") in ("AttributeError", "TypeError", "NotImplementedError"):
                pass        # the code asked the stand-in pool for something it does not offer: see (2)
            elif r["status"] != "ok":
                prop_bad = "the call raised %s %s on a fault-free file" % (r.get("type"), r.get("message"))
            elif r["value"] != n_ev:
                prop_bad = "the call returned %r events, the file has %d" % (r["value"], n_ev)
            else:
                want = ["events_0_%d.dat" % k for k in range(-(-n_ev // c["per"]))]
                if sorted(r["files"]) != sorted(want):
                    prop_bad = "chunk files left behind %r, expected %r" % (r["files"], want)
        # (2) step alignment with the model
        bad = None
        if r["stuck"]:
            bad = "the real code did not reach its next step: %s" % r["stuck"]
        elif any(e[0] == "callback_raised" for e in log):
            bad = "a callback raised inside the result handler (%r): the real pool's handler thread would die" % (
                [e for e in log if e[0] == "callback_raised"][0],)
        elif r["status"] != "ok" and r.get("type") in ("AttributeError", "TypeError", "NotImplementedError"):
            bad = "the call raised %s %s (the stand-in pool cannot follow the code any more)" % (r.get("type"), r.get("message"))
        elif got["finished"] == 0 and m["finished"] == 0:
            rep.bump("proto_schedules_too_short_to_finish", 1)
        else:
            for key in ("finished", "next", "deliveries", "errors"):
                if got[key] != m[key]:
                    bad = "%s differs: the real code %r, the model %r" % (
                        {"finished": "whether the call was over when the schedule was used up",
                         "next": "the number of submitted jobs", "deliveries": "the order of the delivered jobs",
                         "errors": "the jobs whose error was recorded, in order"}[key], got[key], m[key])
                    break
            if not bad and over and not prop_bad and not m["errors"] and r["value"] != m["total"]:
                bad = "the call returned %r events, the model %r" % (r["value"], m["total"])
            if not bad and over and i in prefix and prefix[i] != (1, 0):
                bad = ("the real code needed %d schedule entries; the model says finished=%r for that prefix and %r for "
                       "the prefix one shorter (expected 1 and 0)" % (r["schedule_used"], prefix[i][0], prefix[i][1]))
        detail = {"correspondence": "X-proto-det", "theorems": THEOREMS, "case": d,
                  "impl": {k: r[k] for k in r if k != "log"}, "impl_log": log, "model": m}
        if prop_bad and first_genuine is None:
            first_genuine = (prop_bad, detail)
            break
        if bad and first_broken is None:
            first_broken = (bad, detail)            # keep looking for an input on which the property itself fails
    if first_genuine:
        rep.violation("controlled schedule: " + first_genuine[0], first_genuine[1])
    elif first_broken:
        rep.violation("controlled schedule: " + first_broken[0], first_broken[1], no_input=True)
    rep.coverage["traces_validated_against_impl"] += len(cases)
    return len(cases), encs, mouts
