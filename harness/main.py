"""./check <ID> [--tier quick|thorough] [--replay path]"""
import argparse
import importlib
import json
import os
import random
import sys
import time
import traceback

sys.path.insert(0, os.path.dirname(os.path.abspath(__file__)))
import core  # noqa: E402


class Ctx:
    pass


def main():
    # a tree under test may make results grow without bound: the harness must fail with a MemoryError (reported as a
    # violation below) rather than be chosen by the kernel's OOM killer and die without a verdict
    try:
        import resource
        soft, hard = resource.getrlimit(resource.RLIMIT_DATA)
        lim = 24 * 1024 ** 3
        resource.setrlimit(resource.RLIMIT_DATA, (lim if hard == resource.RLIM_INFINITY else min(lim, hard), hard))
    except Exception:
        pass
    ap = argparse.ArgumentParser()
    ap.add_argument("prop")
    ap.add_argument("--tier", default=os.environ.get("VERIF_TIER", "quick"))
    ap.add_argument("--replay", default=None)
    ap.add_argument("--no-build", action="store_true")
    args = ap.parse_args()
    tier = os.environ.get("VERIF_TIER", args.tier)
    if tier not in ("quick", "thorough"):
        tier = "quick"
    seed = int(os.environ.get("VERIF_SEED", "0") or 0)
    replay = None
    if args.replay:
        # a replay file records the seed and the tier of the run that wrote it: every random choice of a run is
        # derived from that one seed, so re-running the batch with it reproduces the recorded case (checks that
        # implement a single-case replay additionally get the case through ctx.replay)
        with open(args.replay) as f:
            replay = json.load(f)
        seed = int(replay.get("seed", seed))
        tier = replay.get("tier", tier)
    pid = args.prop.upper()
    mod = importlib.import_module("props." + pid.lower())
    rep = core.Report(pid, tier, seed)

    if not args.no_build:
        core.ensure_built()
    hits = core.scan_forbidden()
    props = core.check_props(pid)
    if hits:
        props["ok"] = False
        props["output"] += "\nforbidden constructs: " + "; ".join(hits)
    if not props["ok"]:
        rep.violation("property theorems of %s do not check" % pid,
                      {"theorem_file": props["src"],
                       "theorems": [t["name"] for t in props["theorems"]],
                       "coqc_output": props["output"][-3000:]}, no_input=True)

    ctx = Ctx()
    ctx.rep, ctx.tier, ctx.seed, ctx.rng = rep, tier, seed, random.Random(seed * 7919 + 17)
    ctx.thorough = tier == "thorough"
    ctx.escalated = False
    ctx.replay = replay
    ctx.props = props        # checks with source-derived theorems append them to props['theorems']
    try:
        with core.Scratch() as sc:
            ctx.scratch = sc
            rep.note("scratch_build_s", round(sc.build_s, 1))
            changed = core.source_changed(os.path.join(sc.dir, "pyndl"))
            rep.note("source_differs_from_baseline_in", changed)
            relevant = [f for f in changed if f in core.RELEVANT.get(pid, set(changed)) or f.startswith("<")]
            rep.note("source_differs_in_files_relevant_to_this_property", relevant)
            if relevant and not ctx.thorough and getattr(mod, "ESCALATE", True) and not os.environ.get("PV_NO_ESCALATE"):
                # the tree is not the one the quick tier was calibrated on: explore it with the thorough generators
                ctx.thorough = True
                ctx.escalated = True
                rep.note("escalated_to_thorough_generators", True)
                core.log("source differs from the baseline in %s: quick tier runs the thorough generators" % changed)
            mod.run(ctx)
    except Exception:
        tb = traceback.format_exc()
        core.log(tb)
        rep.violation("the check could not be carried out (build of /repo or harness failure)",
                      {"traceback": tb[-4000:]}, no_input=True)
    # a broken proof obligation with a concrete failing input found: drop the generic one
    if not props["ok"] and len(rep.violations) > 1:
        pass
    rc = rep.finish(props, core.COMMON_TRUSTED + list(getattr(mod, "TRUSTED", [])),
                    getattr(mod, "RULE", ""), getattr(mod, "ASSUMPTIONS", []))
    sys.exit(rc)


if __name__ == "__main__":
    main()
