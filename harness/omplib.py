"""Sharing attributes of the OpenMP work-sharing loops in the C code that Cython generated for THIS build.

The models of the OpenMP entry points (Sched.v: omp_parts / QueueTrace: one part per atomic take) assume that whatever an
iteration of a `prange` loop writes - its part bounds, its error code, its temporaries - is private to the thread that
runs the iteration.  Cython decides that from the shape of the loop body (a variable is private only if it is
*assigned* in the body), so a harmless looking rewrite can silently turn a variable into a shared one.  This module
reads the generated C file, and for every `#pragma omp for` collects
  * the variables the loop body writes (`x = ...`, `x op= ...`, `x++`, or whose address is taken: `&x`), and
  * the variables the pragmas make private (private / firstprivate / lastprivate / reduction of the `omp for` and of the
    enclosing `omp parallel`, plus variables declared inside the body),
and reports every written variable that is shared.  Only Cython's own names for user variables (`__pyx_v_*`) and
temporaries (`__pyx_t_*`) are looked at; `__pyx_parallel_*` bookkeeping is shared on purpose (it is flushed)."""
import re

_CLAUSE = re.compile(r"\b(private|firstprivate|lastprivate|reduction)\s*\(([^)]*)\)")
_VAR = r"__pyx_[vt]_[A-Za-z0-9_]+"


def _strip_comments(text):
    # keep the line structure (line numbers are used in reports)
    def blank(m):
        return re.sub(r"[^\n]", " ", m.group(0))
    text = re.sub(r"/\*.*?\*/", blank, text, flags=re.S)
    text = re.sub(r'"(?:\\.|[^"\\\n])*"', '""', text)
    return text


def _pyx_functions(pyx_text):
    """[(first line, name)] of the top-level defs of a .pyx file"""
    out = []
    for i, line in enumerate(pyx_text.splitlines(), 1):
        m = re.match(r"\s*(?:def|cpdef|cdef)\s+(?:[A-Za-z_][A-Za-z0-9_\[\], ]*\s+)?([A-Za-z_][A-Za-z0-9_]*)\s*\(", line)
        if m and not line.startswith((" ", "\t")):
            out.append((i, m.group(1)))
    return out


def analyse(c_path, pyx_path):
    raw = open(c_path, encoding="utf-8", errors="replace").read()
    text = _strip_comments(raw)
    lines = text.split("\n")
    raw_lines = raw.split("\n")
    funcs = _pyx_functions(open(pyx_path, encoding="utf-8").read())
    pyx_name = pyx_path.rsplit("/", 1)[-1]
    regions = []
    parallel_private = []          # stack is not needed: Cython nests one `omp for` in one `omp parallel`
    for n, line in enumerate(lines):
        if "#pragma omp parallel" in line and "omp parallel for" not in line:
            parallel_private = [v.strip() for _, vs in _CLAUSE.findall(line) for v in vs.split(",")]
        if not re.search(r"#pragma omp (parallel )?for\b", line):
            continue
        private = set(parallel_private)
        for _, vs in _CLAUSE.findall(line):
            private |= {v.split(":")[-1].strip() for v in vs.split(",")}
        # the loop statement and its body
        k = n + 1
        while k < len(lines) and not re.match(r"\s*for\s*\(", lines[k]):
            k += 1
        if k >= len(lines):
            continue
        rest = "\n".join(lines[k:])
        start = rest.index("{")
        depth, pos = 0, start
        while True:
            ch = rest[pos]
            if ch == "{":
                depth += 1
            elif ch == "}":
                depth -= 1
                if depth == 0:
                    break
            pos += 1
        header, body = rest[:start], rest[start:pos + 1]
        loop_var = re.findall(_VAR, header)
        private |= set(loop_var[:1])                                   # the iteration variable of an omp for is private
        declared = set(re.findall(r"(?:int|long|double|float|char|size_t|Py_ssize_t|unsigned)\s+\**\s*(" + _VAR + r")\s*[;=]", body))
        written = set(re.findall(r"(" + _VAR + r")\s*(?:=(?!=)|\+=|-=|\*=|/=|%=|\|=|&=|\^=|<<=|>>=|\+\+|--)", body))
        written |= set(re.findall(r"(?:\+\+|--)\s*(" + _VAR + r")", body))
        addressed = set(re.findall(r"&\s*(" + _VAR + r")\b", body))
        shared_written = sorted((written | addressed) - private - declared)
        # which .pyx function is this?  (the nearest source reference above the pragma)
        fn, src_line = None, None
        for back in range(n, max(0, n - 400), -1):
            m = re.search(r'"pyndl/%s":(\d+)' % re.escape(pyx_name), raw_lines[back])
            if m:
                src_line = int(m.group(1))
                break
        if src_line is not None:
            for first, name in funcs:
                if first <= src_line:
                    fn = name
        regions.append({"c_line": n + 1, "pyx_line": src_line, "function": fn, "written": sorted(written | addressed),
                        "private": sorted(private | declared), "shared_and_written": shared_written})
    return regions
