"""C12 - activations are the cue-wise sums of weights on every code path."""
import json
from fractions import Fraction

import core
import rwlib
from core import run_models, wr_list
from rwlib import Names, nd, fr
from props.c01 import shard

RULE = ("X-act: families of calls of pyndl.activation.activation on the SAME weights and events: labelled matrix "
        "(xarray.DataArray, dims outcomes x cues; values C-contiguous, Fortran-ordered, a transposed view, a strided "
        "view; float64/float32; labels incl. non-ASCII, '' and repeated labels) with n_jobs=1 and n_jobs in 2..6, events as "
        "list / generator / event file (with a frequency column), and the dict-of-dicts twin (plain dict rows for "
        "ignore_missing_cues=False, defaultdict / WeightDict rows for True); plus stand-alone dictionary cases (rows "
        "with different key sets, mixed plain/defaulting rows, n_jobs != 1) and edge cases (no events, no outcomes, "
        "no cues, dims swapped, n_jobs=0). remove_duplicates in {None, True, False} x ignore_missing_cues in "
        "{False, True} x n_jobs 1..6 form a grid. Every batch of events contains events with repeated cues, several "
        "events with the same cue SET but different multiplicities, really empty cue lists (iterables) or '' cues "
        "(files), events that are empty after ignoring unknown cues, and cues unknown to the weights. Weights are "
        "small dyadic numbers (k/8, k/64) so that every float sum is exact: every returned activation is compared "
        "with the Coq model's rational (models 1201/1202) for EXACT equality, as are outcome labels and their order, "
        "dims, shape, exception class (ValueError for duplicates under None / wrong shape, KeyError for unknown cues, "
        "AssertionError for n_jobs), and the keys a defaulting row has grown. Inside a family all successful variants "
        "must return the same table (C12_paths_agree evaluated on the real code). One-step experiment: activation A of "
        "an event for weights W (hand-made or learned by the learner under test), then ONE more event through "
        "dict_ndl / ndl threading / ndl openmp started from W: every present cue must have moved by exactly "
        "alpha*beta*(target - A) and every absent cue not at all (exact rationals, model 1203 as cross-check). "
        "A case is non-trivial when it has >= 2 events or a repeated/unknown cue; distinct by content hash.")
TRUSTED = ["numpy fancy indexing / sum and xarray coordinate access (the model takes weights.values and the two "
           "coordinate lists as given)",
           "multiprocessing.Pool.starmap runs every task exactly once (modelled as an arbitrary permutation of the "
           "tasks with arbitrary worker tags; the harness draws the permutation at random)",
           "C compiler, libgomp, CPython threads for the learner runs of the one-step experiment"]

CUE_LABELS = ['a', 'b', 'c', 'd', 'e', 'f', 'g', 'h', '', '\u00e4', '\u00dc', '\u00df', '\u65e5\u672c', '\u00e9',
              'e\u0301', 'A', 'aa', ' ', '0', 'nan', 'x y', '\u0394']
OUT_LABELS = ['o1', 'o2', 'o3', '', '\u00dc', '\u00f6', 'out 4', 'a', '\u65e5', 'O1', 'o-7', '\u00f1']
POLNAME = {0: "None", 1: "True", 2: "False"}
ERRNAME = {3: ("ValueError", "cues needs to be unique"), 4: ("ValueError", "dimensions of weights are wrong"),
           5: ("KeyError", ""), 6: ("AssertionError", "")}


# ---------------------------------------------------------------------------------------------------------
# generation
# ---------------------------------------------------------------------------------------------------------
def gen_value(rng, fine=False):
    """small dyadic numbers: every partial sum of <= 2^10 of them is exact in double precision in any order.
    fine: more than 24 significant bits (not representable in single precision), still exact sums"""
    r = rng.random()
    if fine and r < 0.15:
        return rng.randint(-8, 8) + Fraction(rng.randrange(1, 2 ** 20, 2), 2 ** 30)
    if r < 0.3:
        return Fraction(rng.randint(-64, 64), 64)
    return Fraction(rng.randint(-24, 24), 8)


def gen_events(rng, cues, unknown, pol, want_dups, want_unknown, no_empty, n_ev, max_cues=6):
    """cue lists. Classes: repeated cues, same set / different multiplicities, empty, only-unknown, unknown mixed in."""
    evs = []
    for _ in range(n_ev):
        r = rng.random()
        if r < 0.08:
            cs = []
        elif want_unknown and r < 0.16:
            cs = [rng.choice(unknown) for _ in range(rng.randint(1, 2))]          # empty after ignoring
            if not want_dups:
                cs = list(dict.fromkeys(cs))
        else:
            cs = [rng.choice(cues) for _ in range(rng.randint(1, max_cues))] if cues else []
            if want_dups and cs and rng.random() < 0.6:
                for _ in range(rng.randint(1, 3)):
                    cs.insert(rng.randrange(len(cs) + 1), rng.choice(cs))
            if not want_dups:
                cs = list(dict.fromkeys(cs))
            if want_unknown and rng.random() < 0.35:
                u = rng.choice(unknown)
                if want_dups or u not in cs:
                    cs.insert(rng.randrange(len(cs) + 1), u)
        evs.append(cs)
    if want_dups and cues:
        # several events with the same cue SET and different multiplicities
        base = rng.sample(cues, min(len(cues), rng.randint(1, 3)))
        base = list(dict.fromkeys(base))
        group = [base[:], base + [base[0]], base + base + [base[-1]], [base[-1]] * 3 + base]
        rng.shuffle(group)
        for g in group[:rng.randint(2, 4)]:
            g2 = g[:]
            rng.shuffle(g2)
            evs.insert(rng.randrange(len(evs) + 1), g2)
    if no_empty:
        evs = [cs if cs else [''] for cs in evs]
    return evs


def matrix_spec(outs, cues, vals, layout="C", dtype="float64"):
    return {"type": "da", "outcomes": outs, "cues": cues, "layout": layout, "dtype": dtype,
            "values": [[nd(vals[(i, k)]) for k in range(len(cues))] for i in range(len(outs))]}


def gen_order(rng, n_tasks, n_jobs):
    order = list(range(n_tasks))
    rng.shuffle(order)
    return [[rng.randrange(max(1, n_jobs)), e] for e in order]


def n_model_events(case):
    if case.get("freq") is not None:
        return sum(case["freq"])
    return len(case["events"])


def gen_family(rng, k, thorough):
    pol = k % 3
    ign = (k // 3) % 2 == 1
    nj_grid = 1 + (k // 6) % 6
    n_cues = rng.choice([1, 2, 3, 3, 5, 5, 8, 12]) if rng.random() > 0.04 else 0
    n_out = rng.choice([1, 1, 2, 3, 5, 8]) if rng.random() > 0.04 else 0
    big = thorough and k % 10 == 9
    if big:
        n_cues, n_out = rng.randint(20, 60), rng.randint(10, 30)
    cues = rng.sample(CUE_LABELS + ["q%d" % i for i in range(60)], n_cues)
    outs = rng.sample(OUT_LABELS + ["w%d" % i for i in range(30)], n_out)
    dup_labels = False
    if n_cues >= 2 and rng.random() < 0.08:
        cues[rng.randrange(1, n_cues)] = cues[0]
        dup_labels = True
    if n_out >= 2 and rng.random() < 0.05:
        outs[-1] = outs[0]
        dup_labels = True
    # cues the weights do not know (the big alphabets can use up CUE_LABELS: fall back to names outside every pool)
    unknown = [c for c in CUE_LABELS if c not in cues] + ["zz%d" % i for i in range(3)]
    unknown = rng.sample(unknown, 3)
    with_file = k % 2 == 0
    vals = {(i, kk): gen_value(rng, fine=with_file) for i in range(n_out) for kk in range(n_cues)}
    want_dups = pol != 0 or rng.random() < 0.2
    want_unknown = ign or rng.random() < 0.25
    n_ev = rng.choice([0, 1, 2, 3, 5, 9, 14 if thorough else 11]) if not big else rng.randint(20, 40)
    cue_lists = gen_events(rng, cues, unknown, pol, want_dups, want_unknown, with_file, n_ev,
                           max_cues=25 if big else 6)
    events = [[cs, rng.choice([[], ['x'], ['o1', 'y']])] for cs in cue_lists]
    fam = []

    def variant(wspec, n_jobs, form, freq=None):
        c = {"kind": "act", "family": k, "weights": wspec, "events": events, "form": form, "pol": pol,
             "ignore": ign, "n_jobs": n_jobs, "junk": nd(gen_value(rng) + 100)}
        if freq is not None:
            c["freq"] = freq
        c["order"] = gen_order(rng, n_model_events(c), n_jobs)
        if k % 4 == 1 and wspec.get("dtype", "float64") == "float64":
            c["prelude"] = True          # same weights object used before with other values, changed in place
        fam.append(c)

    variant(matrix_spec(outs, cues, vals, "C"), 1, "list")
    variant(matrix_spec(outs, cues, vals, rng.choice(["F", "T", "S"])), nj_grid if nj_grid > 1 else rng.randint(2, 6),
            "generator")
    if with_file:
        freq = None
        if rng.random() < 0.4 and events:
            freq = [rng.choice([1, 1, 1, 2, 3, 0]) for _ in events]
        variant(matrix_spec(outs, cues, vals, rng.choice(["C", "F", "T", "S"])), nj_grid, "file", freq)
    else:
        variant(matrix_spec(outs, cues, vals, rng.choice(["C", "F", "T"]), "float32"), nj_grid, "list")
    if not dup_labels:
        if ign:
            typ = rng.choice(["dict", "weightdict"])
            # defaulting rows may lack any of the cues whose weight is 0
            rows = [[o, 1, [[c, nd(vals[(i, kk)])] for kk, c in enumerate(cues)
                            if vals[(i, kk)] != 0 or rng.random() < 0.5]] for i, o in enumerate(outs)]
        else:
            typ = "dict"
            rows = [[o, 0, [[c, nd(vals[(i, kk)])] for kk, c in enumerate(cues)]] for i, o in enumerate(outs)]
        c = {"kind": "act", "family": k, "weights": {"type": typ, "rows": rows}, "events": events,
             "form": rng.choice(["list", "generator"] + (["file"] if with_file else [])), "pol": pol, "n_jobs": 1}
        if rng.random() < 0.5:
            c["ignore"] = ign
        fam.append(c)
    return fam


def gen_dict_case(rng, k):
    """stand-alone dictionary cases: rows with different key sets, mixed row kinds, n_jobs != 1"""
    pol = k % 3
    n_cues = rng.choice([1, 2, 3, 5, 8])
    cues = rng.sample(CUE_LABELS, n_cues)
    outs = rng.sample(OUT_LABELS, rng.choice([0, 1, 2, 3, 5]))
    unknown = rng.sample([c for c in CUE_LABELS if c not in cues], 3)
    typ = ["dict", "weightdict", "dict", "dict"][k % 4]
    mode = ["plain", "default", "default", "mixed"][k % 4]
    rows = []
    for o in outs:
        dflt = 1 if mode == "default" else (0 if mode == "plain" else rng.randrange(2))
        drop = rng.random() < 0.4
        row = [[c, nd(gen_value(rng))] for c in cues if not (drop and rng.random() < 0.3)]
        rng.shuffle(row)
        rows.append([o, dflt, row])
    want_dups = pol != 0 or rng.random() < 0.2
    want_unknown = rng.random() < 0.4
    cue_lists = gen_events(rng, cues, unknown, pol, want_dups, want_unknown, False, rng.choice([0, 1, 2, 4, 7]))
    c = {"kind": "act", "family": None, "weights": {"type": typ, "rows": rows},
         "events": [[cs, []] for cs in cue_lists], "form": rng.choice(["list", "generator"]), "pol": pol,
         "n_jobs": 1 if rng.random() < 0.9 else rng.choice([0, 2, 3])}
    if rng.random() < 0.5:
        c["ignore"] = rng.random() < 0.5
    return c


def gen_edge_cases(rng):
    cases = []
    outs, cues = ['o1', 'Ü', ''], ['a', '', 'ä', 'b']
    vals = {(i, k): Fraction(3 * i + k - 4, 8) for i in range(3) for k in range(4)}

    def mk(wspec, events, pol, ign, n_jobs, form="list"):
        c = {"kind": "act", "family": None, "weights": wspec, "events": events, "form": form, "pol": pol,
             "ignore": ign, "n_jobs": n_jobs, "junk": [7, 1]}
        c["order"] = gen_order(rng, len(events), n_jobs)
        cases.append(c)
    ev = [[['a', 'b'], []], [['a', 'a', ''], []], [[], []], [['zz'], []], [['ä', 'zz', 'a'], []]]
    for n_jobs in (1, 3):
        mk(matrix_spec(outs, cues, vals), [], 0, False, n_jobs)                       # no events
        mk(matrix_spec([], cues, {}), ev[:1], 0, False, n_jobs)                       # no outcomes
        mk(matrix_spec(outs, [], {}), [[['zz'], []], [[], []]], 1, True, n_jobs)      # no cues, all ignored
        mk(matrix_spec(outs, cues, vals, "swapped"), ev[:1], 0, False, n_jobs)        # 4 x 3 values: refused
        for pol in (0, 1, 2):
            for ign in (False, True):
                mk(matrix_spec(outs, cues, vals, "T"), ev, pol, ign, n_jobs)
    mk(matrix_spec(outs, cues, vals), ev[:1], 1, False, 0)                            # n_jobs = 0
    mk(matrix_spec(outs, cues, vals), ev, 1, False, 0)                                # KeyError before the assert
    # KeyError in an early event, duplicate in a later one (and the other way round) under None
    mk(matrix_spec(outs, cues, vals), [[['zz'], []], [['a', 'a'], []]], 0, False, 1)
    mk(matrix_spec(outs, cues, vals), [[['a', 'a'], []], [['zz'], []]], 0, False, 2)
    rows = [[o, 0, [[c, nd(vals[(i, k)])] for k, c in enumerate(cues)]] for i, o in enumerate(outs)]
    for evs in ([[['zz'], []], [['a', 'a'], []]], [[['a', 'a'], []], [['zz'], []]]):
        cases.append({"kind": "act", "family": None, "weights": {"type": "dict", "rows": rows}, "events": evs,
                      "form": "list", "pol": 0, "n_jobs": 1})
    cases.append({"kind": "act", "family": None, "weights": {"type": "dict", "rows": []},
                  "events": [[['zz'], []]], "form": "list", "pol": 0, "n_jobs": 1})   # no rows: nothing can be missing
    return cases


# ---------------------------------------------------------------------------------------------------------
# model encoding / decoding
# ---------------------------------------------------------------------------------------------------------
def model_events(case):
    evs = [cs for cs, _ in case["events"]]
    if case.get("freq") is not None:
        evs = [cs for cs, f in zip(evs, case["freq"]) for _ in range(f)]
    return evs


def encode(case):
    """-> (model id, ints), decoding context"""
    w = case["weights"]
    evs = model_events(case)
    nc = Names()
    if w["type"] == "da":
        no = Names()
        out_ids = [no.id(o) for o in w["outcomes"]]
        cue_ids = [nc.id(c) for c in w["cues"]]
        vals = w["values"]                                  # outcomes x cues
        if w["layout"] == "swapped":                        # weights.values is cues x outcomes
            n_rows, n_cols = len(cue_ids), len(out_ids)
            flat = [vals[i][k] for k in range(len(cue_ids)) for i in range(len(out_ids))]
        else:
            n_rows, n_cols = len(out_ids), len(cue_ids)
            flat = [v for row in vals for v in row]
        out = [case["pol"], 1 if case.get("ignore") else 0, case["n_jobs"], n_rows, n_cols]
        out += wr_list(out_ids) + wr_list(cue_ids)
        for v in flat:
            out += list(v)
        out += list(case["junk"])
        out += [len(case["order"])]
        for wk, e in case["order"]:
            out += [wk, e]
        out += [len(evs)]
        for cs in evs:
            out += wr_list([nc.id(c) for c in cs])
        return (1201, out), {"no": no, "nc": nc}
    no = Names()
    out = [case["pol"], case["n_jobs"], len(w["rows"])]
    for o, dflt, row in w["rows"]:
        out += [no.id(o), 1 if dflt else 0] + wr_list([nc.id(c) for c, _ in row])
        for _, v in row:
            out += list(v)
    out += [len(evs)]
    for cs in evs:
        out += wr_list([nc.id(c) for c in cs])
    return (1202, out), {"no": no, "nc": nc}


def decode(case, mout, dctx):
    """-> ('err', code) | ('da', out labels, n_events, {(i,e): Fraction}) | ('dict', [(label, [Fraction])], keys)"""
    if mout[0] == -1:
        return ("err", mout[1])
    if mout[0] != 0:
        raise RuntimeError("model could not decode the case: %r" % (mout[:5],))
    r = core.Reader(mout)
    r.int()
    if case["weights"]["type"] == "da":
        outs = [dctx["no"].names[i] for i in r.list()]
        n_ev = r.int()
        rest = r.rest()
        assert len(rest) == 2 * len(outs) * n_ev, (len(rest), len(outs), n_ev)
        cells = {}
        j = 0
        for i in range(len(outs)):
            for e in range(n_ev):
                cells[(i, e)] = Fraction(rest[j], rest[j + 1])
                j += 2
        return ("da", outs, n_ev, cells)
    n = r.int()
    rows = []
    for _ in range(n):
        o = dctx["no"].names[r.int()]
        v = r.list()
        rows.append((o, [Fraction(v[2 * i], v[2 * i + 1]) for i in range(len(v) // 2)]))
    keys = [[dctx["nc"].names[c] for c in r.list()] for _ in range(n)]
    return ("dict", rows, keys)


# ---------------------------------------------------------------------------------------------------------
# comparison
# ---------------------------------------------------------------------------------------------------------
def describe(case):
    d = {k: case.get(k) for k in ("family", "form", "pol", "ignore", "n_jobs", "freq")}
    d["remove_duplicates"] = POLNAME[case["pol"]]
    w = case["weights"]
    if w["type"] == "da":
        d["weights"] = {"type": "DataArray", "layout": w["layout"], "dtype": w["dtype"], "outcomes": w["outcomes"],
                        "cues": w["cues"], "values": [[str(fr(v)) for v in row] for row in w["values"]]}
        d["completion_order"] = case.get("order")
    else:
        d["weights"] = {"type": w["type"], "rows": [[o, "defaulting" if df else "plain",
                                                     {c: str(fr(v)) for c, v in row}] for o, df, row in w["rows"]]}
    d["events"] = [cs for cs, _ in case["events"]]
    return d


def compare(case, res, model):
    """-> None or a message"""
    if res.get("status") not in ("ok", "raise"):
        return "the call did not complete: %s" % (json.dumps(res)[:500],)
    if model[0] == "err":
        cls, msg = ERRNAME[model[1]]
        if res["status"] != "raise":
            return "expected %s (%s), the call returned a result" % (cls, msg or "model code %d" % model[1])
        if res["type"] != cls:
            return "expected %s, got %s: %s" % (cls, res["type"], res["msg"])
        if msg and not res["msg"].startswith(msg):
            return "expected %s('%s...'), got message %r" % (cls, msg, res["msg"])
        return None
    if res["status"] == "raise":
        return "the call raised %s: %s; the model returns a table" % (res["type"], res["msg"])
    v = res["value"]
    if model[0] == "da":
        _, outs, n_ev, cells = model
        if v.get("kind") != "da":
            return "result is a %s, not a DataArray" % v.get("kind")
        if v["dims"] != ["outcomes", "events"]:
            return "dims of the result are %r" % (v["dims"],)
        if v["outcomes"] != outs:
            return "outcome labels of the result are %r, weights have %r" % (v["outcomes"], outs)
        if v["shape"] != [len(outs), n_ev]:
            return "shape of the result is %r, expected %r" % (v["shape"], [len(outs), n_ev])
        for (i, e), mv in cells.items():
            iv = fr(v["values"][i][e])
            if iv != mv:
                return ("activation of outcome %r (row %d) for event %d is %s, the sum of the weights over its cues "
                        "is %s" % (outs[i], i, e, iv, mv))
        return None
    _, rows, keys = model
    if v.get("kind") != "defaultdict":
        return "result is a %s, not a defaultdict" % v.get("kind")
    if v["outcomes"] != [o for o, _ in rows]:
        return "outcomes of the result are %r, weights.items() has %r" % (v["outcomes"], [o for o, _ in rows])
    for (o, mvals), ivals in zip(rows, v["values"]):
        ivals = [fr(x) for x in ivals]
        if ivals != mvals:
            return "activations of outcome %r are %s, the sums are %s" % (o, [str(x) for x in ivals],
                                                                         [str(x) for x in mvals])
    return None


def rows_grown_as_model(case, res, model):
    """a defaulting row grows by the cues it is asked for (side effect of defaultdict; outside the property, so it is
    recorded in the evidence and never alarmed)"""
    after = [ks for _, ks in res["value"]["rows_after"]]
    keys = model[2]
    if case["pol"] == 2:
        return after == keys
    return [sorted(a) for a in after] == [sorted(a) for a in keys]


def table_of(res):
    v = res["value"]
    return (v["outcomes"], [[tuple(x) for x in row] for row in v["values"]])


def run_jobs(sc, jobs, n=None, timeout=600):
    n = n or core.NCPU
    sh = shard(jobs, n)
    results = sc.run_workers("act_worker", [{"jobs": js, "fast_poll": True} for _, js in sh], timeout=timeout,
                             hashseeds=[i * 7 + 1 for i in range(len(sh))])
    out = [None] * len(jobs)
    for (ids, _), (status, res) in zip(sh, results):
        for j, i in enumerate(ids):
            out[i] = res[j] if status == "ok" else {"status": status, "detail": res}
    return out


def nontrivial(case):
    evs = model_events(case)
    known = set(case["weights"]["cues"]) if case["weights"]["type"] == "da" else None
    return len(evs) >= 2 or any(len(set(cs)) != len(cs) or (known is not None and any(c not in known for c in cs))
                                for cs in evs)


def check_cases(ctx, cases, label):
    rep = ctx.rep
    enc = [encode(c) for c in cases]
    mouts = run_models([e for e, _ in enc])
    impl = run_jobs(ctx.scratch, cases)
    nbad = 0
    fam_tables = {}
    for case, (e, dctx), mo, res in zip(cases, enc, mouts, impl):
        model = decode(case, mo, dctx)
        w = case["weights"]
        rep.case(describe(case), nontrivial=nontrivial(case))
        rep.hist("path", "dict:" + w["type"] if w["type"] != "da" else
                 ("matrix:n_jobs=1" if case["n_jobs"] == 1 else "matrix:pool"))
        rep.hist("grid", "rd=%s ignore=%s n_jobs=%d" % (POLNAME[case["pol"]], case.get("ignore"), case["n_jobs"]))
        rep.hist("form", case["form"] + ("+freq" if case.get("freq") else ""))
        if w["type"] == "da":
            rep.hist("layout", w["layout"] + ":" + w["dtype"])
        rep.hist("outcome", "table" if model[0] != "err" else ERRNAME[model[1]][0])
        evs = model_events(case)
        rep.hist("n_events", len(evs))
        if any(len(set(cs)) != len(cs) for cs in evs):
            rep.bump("calls_with_repeated_cues")
        sets = {}
        for cs in evs:
            sets.setdefault(frozenset(cs), set()).add(tuple(sorted(cs)))
        if any(len(v) > 1 for v in sets.values()):
            rep.bump("calls_with_same_set_different_multiplicity")
        if any(not cs for cs in evs):
            rep.bump("calls_with_empty_cue_list")
        bad = compare(case, res, model)
        if bad is None and model[0] == "da":
            rep.bump("cells_exact", len(model[3]))
        if bad is None and model[0] == "dict":
            rep.bump("cells_exact", sum(len(v) for _, v in model[1]))
            rep.hist("dict_rows_after_call_as_model", rows_grown_as_model(case, res, model))
        if bad is None and res.get("status") == "ok" and case.get("family") is not None:
            fam_tables.setdefault(case["family"], []).append((case, table_of(res)))
        if bad:
            nbad += 1
            rep.violation(bad, {"correspondence": "X-act (%s)" % label,
                                "theorems": ["C12_matrix", "C12_paths_agree", "C12_paths_agree_dict",
                                             "C12_missing_cue", "C12_first_bad_event", "C12_dict_errors"],
                                "case": describe(case), "replay_case": case,
                                "model": ("error %s" % (ERRNAME[model[1]],)) if model[0] == "err" else
                                str(model[1:])[:1500],
                                "implementation": json.dumps(res)[:1500]})
            if nbad >= 3:
                break
    # C12_paths_agree on the real code: all successful members of a family return the same table
    for fam, members in fam_tables.items():
        ref_case, ref = members[0]
        if ref_case.get("freq"):
            continue
        for case, tb in members[1:]:
            if case.get("freq"):
                continue
            rep.bump("family_pairs_compared")
            if tb != ref and nbad < 3:
                nbad += 1
                rep.violation("two paths disagree on the same weights and events",
                              {"correspondence": "C12_paths_agree on the implementation", "a": describe(ref_case),
                               "b": describe(case), "table_a": str(ref)[:800], "table_b": str(tb)[:800]})
    rep.coverage["traces_validated_against_impl"] += len(cases)
    return nbad, [e for e, _ in enc], mouts


# ---------------------------------------------------------------------------------------------------------
# the one-step experiment
# ---------------------------------------------------------------------------------------------------------
def gen_one_step(rng, k):
    learner = ["dict_ndl", "ndl:threading", "ndl:openmp"][k % 3]
    cues = rng.sample([c for c in CUE_LABELS if c and '_' not in c], rng.choice([3, 4, 6]))
    outs = rng.sample([o for o in OUT_LABELS if o], rng.choice([2, 3, 5]))
    p = {"alpha": rng.choice([Fraction(1, 2), Fraction(1, 4), Fraction(1, 8)]),
         "beta1": rng.choice([Fraction(1, 2), Fraction(1, 4)]), "beta2": rng.choice([Fraction(1, 8), Fraction(1, 16)]),
         "lam": rng.choice([Fraction(1), Fraction(3), Fraction(1, 2), Fraction(-2)])}
    job = {"kind": "one_step", "learner": learner, "n_jobs": rng.choice([1, 1, 2, 3]),
           "learn_jobs": rng.choice([1, 2, 3]), "n_outcomes_per_job": rng.choice([1, 2, 10])}
    job.update({kk: nd(v) for kk, v in p.items()})
    learned = k % 2 == 1
    if learned:
        pre = []
        for _ in range(rng.randint(2, 4)):
            pre.append([rng.sample(cues, rng.randint(1, min(3, len(cues)))), rng.sample(outs, rng.randint(1, 2))])
        job["pre_events"] = pre
        known_c = list(dict.fromkeys(c for cs, _ in pre for c in cs))
        known_o = list(dict.fromkeys(o for _, os_ in pre for o in os_))
    else:
        vals = {(i, kk): Fraction(rng.randint(-16, 16), 8) for i in range(len(outs)) for kk in range(len(cues))}
        job["weights"] = matrix_spec(outs, cues, vals, rng.choice(["C", "F", "T"]))
        known_c, known_o = cues, outs
    ecs = rng.sample(known_c, rng.randint(1, min(3, len(known_c))))
    ign = False
    if rng.random() < 0.35:
        ecs.insert(rng.randrange(len(ecs) + 1), "new-cue")          # a cue the weights do not know yet
        ign = True
    eos = rng.sample(known_o, rng.randint(0, min(2, len(known_o))))
    if rng.random() < 0.25:
        eos.append("new-outcome")
    if not eos:
        eos = ["new-outcome"] if learner != "dict_ndl" else eos       # an event file needs an outcome field
    job["event"] = [ecs, eos]
    job["ignore"] = ign
    return job, p


def check_one_step(ctx, n):
    rep, rng = ctx.rep, ctx.rng
    trials = [gen_one_step(rng, k) for k in range(n)]
    res = run_jobs(ctx.scratch, [j for j, _ in trials], n=min(core.NCPU, n))
    menc, mctx = [], []
    nbad = 0
    for (job, p), r in zip(trials, res):
        d = {"learner": job["learner"], "event": job["event"], "p": {k: str(v) for k, v in p.items()},
             "weights": "learned from %r" % (job["pre_events"],) if job.get("pre_events") else "hand-made",
             "ignore_missing_cues": job["ignore"], "n_jobs": job["n_jobs"]}
        rep.case(d, nontrivial=True)
        rep.hist("one_step_learner", job["learner"])
        bad = None
        if r.get("status") != "ok":
            bad = "the experiment did not complete: %s" % (json.dumps(r)[:600],)
        else:
            v = r["value"]
            W, A, W2 = v["W"], v["A"], v["W2"]
            ecs, eos = job["event"]
            Wt = {(o, c): fr(W["values"][i][j]) for i, o in enumerate(W["outcomes"]) for j, c in enumerate(W["cues"])}
            At = {o: fr(A["values"][i][0]) for i, o in enumerate(A["outcomes"])}
            d["W"] = {"outcomes": W["outcomes"], "cues": W["cues"],
                      "values": [[str(fr(x)) for x in row] for row in W["values"]]}
            d["activation"] = {o: str(x) for o, x in At.items()}
            if not v["W_unchanged_by_activation"]:
                bad = "activation() changed its weights argument"
            elif A["dims"] != ["outcomes", "events"] or A["outcomes"] != W["outcomes"]:
                bad = "activation labels %r / dims %r do not match the weights %r" % (A["outcomes"], A["dims"],
                                                                                     W["outcomes"])
            elif set(W2["outcomes"]) != set(W["outcomes"]) | set(eos) or set(W2["cues"]) != set(W["cues"]) | set(ecs):
                bad = "labels after one more event: %r x %r" % (W2["outcomes"], W2["cues"])
            else:
                # A itself must be the sum of W over the event's cues
                for o in W["outcomes"]:
                    s = sum((Wt[(o, c)] for c in ecs if (o, c) in Wt), Fraction(0))
                    if At[o] != s and not bad:
                        bad = "activation of %r is %s, the weights sum to %s" % (o, At[o], s)
                for i, o in enumerate(W2["outcomes"]):
                    beta, target = (p["beta1"], p["lam"]) if o in eos else (p["beta2"], Fraction(0))
                    a = At.get(o, Fraction(0))
                    for j, c in enumerate(W2["cues"]):
                        diff = fr(W2["values"][i][j]) - Wt.get((o, c), Fraction(0))
                        want = p["alpha"] * beta * (target - a) if c in ecs else Fraction(0)
                        rep.bump("one_step_cells")
                        if diff != want and not bad:
                            bad = ("after one more event the weight (%r, %r) moved by %s; alpha*beta*(target - "
                                   "activation) = %s*%s*(%s - %s) = %s" % (o, c, diff, p["alpha"], beta, target, a, want)
                                   if c in ecs else
                                   "the weight (%r, %r) of an absent cue moved by %s" % (o, c, diff))
                # cross-check with the model of the step (RWSpec.step) and of the activation
                no, nc = Names(), Names()
                rows = [no.id(o) for o in W2["outcomes"]]
                cols = [nc.id(c) for c in W2["cues"]]
                enc = nd(p["alpha"]) + nd(p["beta1"]) + nd(p["beta2"]) + nd(p["lam"])
                enc += wr_list([nc.id(c) for c in ecs]) + wr_list([no.id(o) for o in eos])
                enc += wr_list(rows) + wr_list(cols)
                for o in W2["outcomes"]:
                    for c in W2["cues"]:
                        enc += nd(Wt.get((o, c), Fraction(0)))
                menc.append((1203, enc))
                mctx.append((d, W2, Wt, At))
        if bad:
            nbad += 1
            rep.violation(bad, {"correspondence": "one-step experiment (activation vs learner)",
                                "theorems": ["C12_one_step", "C01_documented_rule"], "case": d, "job": job})
            if nbad >= 3:
                break
    mouts = run_models(menc)
    for (d, W2, Wt, At), mo in zip(mctx, mouts):
        if nbad >= 3:
            break
        if mo[0] != 0:
            raise RuntimeError("model 1203 could not decode its case")
        j = 1
        for i, o in enumerate(W2["outcomes"]):
            ma = Fraction(mo[j], mo[j + 1])
            j += 2
            if o in At and At[o] != ma:
                nbad += 1
                rep.violation("activation of %r is %s, model act = %s" % (o, At[o], ma),
                              {"correspondence": "one-step experiment (model 1203)", "case": d})
                break
            for k, c in enumerate(W2["cues"]):
                md = Fraction(mo[j], mo[j + 1])
                j += 2
                diff = fr(W2["values"][i][k]) - Wt.get((o, c), Fraction(0))
                if diff != md:
                    nbad += 1
                    rep.violation("weight (%r, %r) moved by %s, RWSpec.step moves it by %s" % (o, c, diff, md),
                                  {"correspondence": "one-step experiment (model 1203)",
                                   "theorems": ["C12_one_step"], "case": d})
                    break
            else:
                continue
            break
    rep.coverage["traces_validated_against_impl"] += len(trials)
    return menc, mouts


def observe_square_swapped(ctx):
    """weights with dims (cues, outcomes) are refused by the shape test only when the matrix is not square; for a
    square one the values are read as if they were outcomes x cues.  Recorded, not alarmed: the model takes
    weights.values as the code sees it (C12_shape), and ndl.ndl / dict_ndl always return (outcomes, cues)."""
    outs, cues = ['o1', 'o2'], ['a', 'b']
    vals = {(0, 0): Fraction(1, 8), (0, 1): Fraction(2, 8), (1, 0): Fraction(3, 8), (1, 1): Fraction(4, 8)}
    case = {"kind": "act", "family": None, "weights": matrix_spec(outs, cues, vals, "swapped"),
            "events": [[['a'], []]], "form": "list", "pol": 0, "ignore": False, "n_jobs": 1, "junk": [0, 1],
            "order": [[0, 0]]}
    (e, dctx) = encode(case)
    mo = run_models([e])[0]
    res = run_jobs(ctx.scratch, [case], n=1)[0]
    model = decode(case, mo, dctx)
    bad = compare(case, res, model)
    if bad:
        ctx.rep.violation(bad, {"correspondence": "X-act (square matrix with swapped dims)", "case": describe(case)})
        return
    got = [str(fr(row[0])) for row in res["value"]["values"]]
    ctx.rep.note("observation_square_weights_with_dims_cues_outcomes",
                 {"input": "DataArray 2x2 with dims ('cues','outcomes'), W[o1][a]=1/8 W[o1][b]=2/8 W[o2][a]=3/8 "
                           "W[o2][b]=4/8, event cues ['a']",
                  "returned": got, "labelled_sum_would_be": ["1/8", "3/8"],
                  "note": "no exception: the shape test cannot see swapped dims of a square matrix; model and "
                          "implementation agree on weights.values as given"})


def run(ctx):
    rep, rng = ctx.rep, ctx.rng
    if ctx.replay:
        d = ctx.replay["detail"]
        if d.get("replay_case"):
            check_cases(ctx, [d["replay_case"]], "replay")
            return
        rep.note("replay", "no replayable case in the file; running the normal check")
    n_fam = 2400 if ctx.thorough else 144
    cases = gen_edge_cases(rng)
    for k in range(n_fam):
        cases += gen_family(rng, k, ctx.thorough)
    for k in range(1200 if ctx.thorough else 96):
        cases.append(gen_dict_case(rng, k))
    rep.lap("generate")
    nbad, enc, mouts = check_cases(ctx, cases, "families, dictionaries, edge cases")
    rep.lap("activation_calls")
    observe_square_swapped(ctx)
    menc, mo2 = check_one_step(ctx, 480 if ctx.thorough else 48)
    rep.lap("one_step")
    allc, allo = enc + menc, mouts + mo2
    idx = list(range(len(allc)))
    rng.shuffle(idx)
    n, badi = core.coq_crosscheck([allc[i] for i in idx], [allo[i] for i in idx])
    rep.note("vm_compute_crosschecked_cases", n)
    if badi:
        rep.violation("extracted model and vm_compute disagree", {"cases": badi}, no_input=True)
    rep.lap("vm_crosscheck")
