"""C13 - the learners obey the algebraic laws of the Rescorla-Wagner map."""
from fractions import Fraction

import core
import rwlib
from props.c01 import run_jobs, check_cases, gen_cases

RULE = ("each law is evaluated as a relation between two or three runs of the REAL learners (dict_ndl, ndl threading, "
        "ndl openmp; no oracle): row locality (other outcomes removed / renamed), equivariance (injective renaming of "
        "cues and outcomes), cue order (cues shuffled inside events), affine in the initial weights "
        "(learn_l(W) = learn_0(W) + learn_l(0)), proportional to lambda from zero (k in {2, 1/2, -4}), beta2 = 0 keeps "
        "rows of absent outcomes, alpha = 0 keeps columns. Cells are compared as exact rationals with a relative "
        "tolerance of 1e-9 (float rounding of re-ordered sums). The laws are theorems about RWSpec.learn, so a reduced "
        "X-rw correspondence (learner = model) runs as well; if it breaks while no law witness is found the violation "
        "is reported with no-failing-input-found. A trial is non-trivial when it has >= 2 events; distinct by content hash.")
TRUSTED = ["numpy/xarray labelled indexing used to read the returned weights"]

LEARNERS = ["dict_ndl", "ndl:threading", "ndl:openmp"]
POL = [2]      # duplicate policy of the trial being generated


FORM = {}


def mkjob(learner, es, p, pol=2, weights=None, alpha=None):
    pol = POL[0]
    j = {"events": es, "pol": pol, "beta1": rwlib.nd(p["beta1"]), "beta2": rwlib.nd(p["beta2"]),
         "lam": rwlib.nd(p["lam"])}
    a = p["alpha"] if alpha is None else alpha
    j["alpha"] = {c: rwlib.nd(v) for c, v in a.items()} if isinstance(a, dict) else rwlib.nd(a)
    if learner == "dict_ndl":
        j.update({"kind": "dict_ndl", "make_data_array": False})
    else:
        j.update({"kind": "ndl", "method": learner.split(":")[1], "n_jobs": FORM.get("n_jobs", 2), "n_outcomes_per_job": 2})
        # per trial: the events reach the learner as a path or as a generator, in one temporary file or in several
        if FORM.get("events_per_file"):
            j["events_per_file"] = FORM["events_per_file"]
        if FORM.get("as_generator"):
            j["as_generator"] = True
    if weights is not None:
        j["weights"] = weights
    return j


def table(res):
    """worker result -> {(outcome, cue): Fraction} at the level of names"""
    v = res["value"]
    return {(o, c): rwlib.fr(v["values"][i][j]) for i, o in enumerate(v["outcomes"]) for j, c in enumerate(v["cues"])}


def close(a, b, scale):
    return abs(a - b) <= Fraction(1, 10**9) * max(1, abs(scale), abs(a), abs(b))


def da_cells(outs, cues, fn):
    return {"outcomes": outs, "cues": cues, "values": [[rwlib.nd(fn(o, c)) for c in cues] for o in outs]}


def run(ctx):
    rep, rng, sc = ctx.rep, ctx.rng, ctx.scratch
    trials = []
    jobs = []

    def add(job):
        jobs.append(job)
        return len(jobs) - 1

    n_trials = 600 if ctx.thorough else 45
    for t in range(n_trials):
        learner = LEARNERS[t % 3]
        pol = [2, 1, 0][(t // 3) % 3]
        es = rwlib.gen_events(rng, rng.randint(2, 9), n_cue_alpha=rng.choice([5, 12]),
                              n_out_alpha=rng.choice([4, 12, 20]), max_cues=3, max_outs=rng.choice([2, 4]),
                              dups=pol != 0, outcome_less=False, file_form=True)
        p = rwlib.gen_params(rng)
        no, nc = rwlib.label_sets(es)
        outs, cues = list(no.names), list(nc.names)
        POL[0] = pol
        FORM.clear()
        FORM.update({"events_per_file": rng.choice([None, 2, 2, 3]), "as_generator": rng.random() < 0.4,
                     "n_jobs": rng.choice([2, 3, 4])})
        tr = {"learner": learner, "es": es, "p": p, "rel": {}, "pol": pol, "form": dict(FORM)}
        base = add(mkjob(learner, es, p))
        tr["base"] = base
        # R1 row locality: keep only the target outcome (others removed) / rename the others
        target = rng.choice(outs)
        es_rm = [[cs, [o for o in os_ if o == target] or ["other"]] for cs, os_ in es]
        es_rn = [[cs, [o if o == target else "ren-" + o for o in os_]] for cs, os_ in es]
        tr["rel"]["row_locality"] = (target, add(mkjob(learner, es_rm, p)), add(mkjob(learner, es_rn, p)))
        # R2 equivariance
        fc = {c: "k%d_%s" % (i, c[::-1]) for i, c in enumerate(reversed(cues))}
        go = {o: "z%d_%s" % (i, o[::-1]) for i, o in enumerate(reversed(outs))}
        fc = {c: v.replace("_", "-") for c, v in fc.items()}
        go = {o: v.replace("_", "-") for o, v in go.items()}
        es_eq = [[[fc[c] for c in cs], [go[o] for o in os_]] for cs, os_ in es]
        tr["rel"]["equivariance"] = (fc, go, add(mkjob(learner, es_eq, p)))
        # R3 cue order
        es_sh = []
        for cs, os_ in es:
            cs2, os2 = cs[:], os_[:]
            rng.shuffle(cs2)
            rng.shuffle(os2)
            es_sh.append([cs2, os2])
        tr["rel"]["cue_order"] = add(mkjob(learner, es_sh, p))
        # R4 affine in W0 (initial weights over the labels of the events, small dyadic values)
        w0 = {(o, c): Fraction(rng.randint(-6, 6), 8) for o in outs for c in cues}
        W0 = da_cells(outs, cues, lambda o, c: w0[(o, c)])
        p0 = dict(p, lam=Fraction(0))
        tr["w0"] = w0
        tr["rel"]["affine"] = (add(mkjob(learner, es, p, weights=W0)), add(mkjob(learner, es, p0, weights=W0)))
        # R5 proportional to lambda
        k = rng.choice([Fraction(2), Fraction(1, 2), Fraction(-4)])
        tr["rel"]["proportional"] = (k, add(mkjob(learner, es, dict(p, lam=k * p["lam"]))))
        # R6 beta2 = 0: an outcome row that never occurs keeps its initial weights
        outs6 = outs + ["never"]
        w6 = {(o, c): Fraction(rng.randint(-6, 6), 8) for o in outs6 for c in cues}
        tr["w6"] = w6
        tr["rel"]["beta2_zero"] = add(mkjob(learner, es, dict(p, beta2=Fraction(0)),
                                            weights=da_cells(outs6, cues, lambda o, c: w6[(o, c)])))
        # R7 alpha = 0
        if learner == "dict_ndl":
            zc = rng.choice(cues)
            alpha = {c: (Fraction(0) if c == zc else Fraction(1, 4)) for c in cues}
            tr["rel"]["alpha_zero"] = (zc, add(mkjob(learner, es, p, weights=W0, alpha=alpha)))
        else:
            tr["rel"]["alpha_zero"] = (None, add(mkjob(learner, es, p, weights=W0, alpha=Fraction(0))))
        trials.append(tr)
    res = run_jobs(sc, "rw_worker", jobs)
    rep.lap("law_runs")
    law_violation = False
    for tr in trials:
        d = {"learner": tr["learner"], "events": tr["es"], "p": {k: str(v) for k, v in tr["p"].items()},
             "remove_duplicates": {0: None, 1: True, 2: False}[tr["pol"]], "input_form": tr["form"]}
        rep.hist("policy", d["remove_duplicates"])
        rep.case(d, nontrivial=len(tr["es"]) >= 2)
        rep.hist("learner", tr["learner"])
        idxs = [tr["base"]]
        for v in tr["rel"].values():
            idxs += [x for x in (v if isinstance(v, tuple) else (v,)) if isinstance(x, int)]
        if any(res[i].get("status") != "ok" for i in idxs):
            bad_i = [i for i in idxs if res[i].get("status") != "ok"][0]
            rep.violation("a learner run of a law trial failed: %s" % str(res[bad_i])[:400],
                          {"correspondence": "C13-laws", "case": d, "job": jobs[bad_i]})
            law_violation = True
            break
        lam = tr["p"]["lam"]
        B = table(res[tr["base"]])
        bad = None
        target, i_rm, i_rn = tr["rel"]["row_locality"]
        for name, i in (("removed", i_rm), ("renamed", i_rn)):
            T = table(res[i])
            for (o, c), v in B.items():
                if o == target and not close(T.get((o, c), None) if (o, c) in T else Fraction(10**9), v, lam):
                    bad = ("row_locality", "row %r changed when the other outcomes were %s: %s vs %s at cue %r" % (
                        target, name, float(T.get((o, c), 0)), float(v), c))
        fc, go, i_eq = tr["rel"]["equivariance"]
        T = table(res[i_eq])
        for (o, c), v in B.items():
            if (go[o], fc[c]) not in T or not close(T[(go[o], fc[c])], v, lam):
                bad = bad or ("equivariance", "renamed run differs at (%r,%r)" % (o, c))
        T = table(res[tr["rel"]["cue_order"]])
        for k_, v in B.items():
            if k_ not in T or not close(T[k_], v, lam):
                bad = bad or ("cue_order", "shuffling cues inside events changed %r: %s vs %s" % (k_, float(T.get(k_, 0)), float(v)))
        ia, i0 = tr["rel"]["affine"]
        TA, T0 = table(res[ia]), table(res[i0])
        for k_, v in B.items():
            if k_ in TA and k_ in T0:
                if not close(TA[k_], T0[k_] + v, lam):
                    bad = bad or ("affine_in_W0", "learn_l(W0) != learn_0(W0) + learn_l(0) at %r: %s vs %s" % (
                        k_, float(TA[k_]), float(T0[k_] + v)))
            else:
                bad = bad or ("affine_in_W0", "missing cell %r" % (k_,))
        kk, ik = tr["rel"]["proportional"]
        T = table(res[ik])
        for k_, v in B.items():
            if k_ not in T or not close(T[k_], kk * v, kk * lam):
                bad = bad or ("proportional_to_lambda", "learn_{k*l}(0) != k*learn_l(0) at %r (k=%s)" % (k_, kk))
        T = table(res[tr["rel"]["beta2_zero"]])
        for (o, c), v in tr["w6"].items():
            if o == "never" and T.get((o, c)) != v:
                bad = bad or ("beta2_zero_absent_rows_fixed", "row of an absent outcome moved with beta2=0 at cue %r: %s -> %s" % (
                    c, v, T.get((o, c))))
        zc, iz = tr["rel"]["alpha_zero"]
        T = table(res[iz])
        for (o, c), v in tr["w0"].items():
            if (zc is None or c == zc) and T.get((o, c), Fraction(0)) != v:
                bad = bad or ("alpha_zero_column_fixed", "cell (%r,%r) moved although alpha is 0: %s -> %s" % (o, c, v, T.get((o, c))))
        if bad:
            law_violation = True
            rep.hist("law_violated", bad[0])
            rep.violation("law %s fails on the real learner %s: %s" % (bad[0], tr["learner"], bad[1]),
                          {"correspondence": "C13-laws", "theorems": ["C13_" + bad[0]], "case": d})
            break
    rep.coverage["traces_validated_against_impl"] += len(jobs)
    rep.note("law_relations_evaluated", 9 * len(trials))

    # reduced correspondence learner = model, which is what lets the theorems speak about the learners
    before = len(rep.violations)
    cases = gen_cases(rng, 24, 24, False)[:48]
    check_cases(ctx, cases, correspondence="X-rw (reduced, for C13)",
                theorems=["C13_* transfer to the learners only through C01_dict / C01_kernel"])
    if len(rep.violations) > before and not law_violation:
        # the model no longer describes the learner and no law witness was found: keep the alarm, mark it
        new = rep.violations[before:]
        rep.violations[before:] = [(p_, True, w) for (p_, _, w) in new]
    rep.lap("reduced_correspondence")
