"""C02 - parallel learning is independent of the schedule and always terminates."""
from fractions import Fraction

import core
import rwlib
import schedlib
from core import run_models, wr_list, Reader
from props.c01 import job_of_case, describe

RULE = ("X-sched: for fixed event sets the real parallel learner is run for n_jobs in {1,2,3,5,8,16,64} (more threads "
        "than work items included), n_outcomes_per_job in {1,2,3,n-1,n,n+3}, both methods, a different PYTHONHASHSEED per "
        "run, sys.setswitchinterval(1e-6) and a work queue whose empty()/get() yield at random (threading), OpenMP "
        "oversubscribed; every configuration must return, cell by cell, the exact rational result of the sequential "
        "model (C02_schedule_independent transfers it to every interleaving) and finish before a deadline two orders of "
        "magnitude above its normal duration (a missed deadline is confirmed by an isolated re-run). The exactly-once "
        "probe (one single-cue event, alpha*beta1 = 1/2: 1/2 once, 3/4 twice, 0 never) runs for every outcome. "
        "ndl.slice_list is compared with the model exhaustively for len <= 40, n <= 45. A case is non-trivial when "
        "n_jobs > 1 or there is more than one part; distinct by content hash. " + schedlib.RULE + ".")
TRUSTED = ["the translator tools/py2coq.py (structural map Python ast -> MiniPy constructors, fail-closed) and the MiniPy semantics (coq/theories/MiniPy.v) as a reading of CPython for the accepted fragment; validated on this run by evaluating the generated term with vm_compute against the real function / the hand-written model",
           "harness/omplib.py: regular expressions over the C code Cython generated for this build (names __pyx_v_*/__pyx_t_*, brace matching, private/firstprivate/lastprivate/reduction clauses)",
           "CPython threads/GIL, libgomp and the hardware memory model are not modelled: real interleavings are amplified "
           "and observed, the model exhibits every interleaving at row-update granularity"]
ASSUMPTIONS = ["termination of the real runs is observed as a deadline (120 s per call, ~1 s normal), not proved"]

DEADLINE = 120


def configs(n_out, thorough, rng):
    njs = [1, 2, 3, 5, 8, 16, 64]
    # "every outcome chunk size": also the upper end of the 32-bit parameter (2^32-1 is how "everything in one job" is
    # spelled; 2^32 - n_out is the largest size for which n_out + size - 1 still fits in 32 bits)
    huge = [2 ** 32 - 1, 2 ** 32 - n_out, 2 ** 31]
    per = sorted({1, 2, 3, max(1, n_out - 1), n_out, n_out + 3})
    allc = [(m, nj, pj) for m in ("threading", "openmp") for nj in njs for pj in per] + \
           [(m, nj, pj) for m in ("threading", "openmp") for nj in (1, 3) for pj in huge]
    if thorough:
        return allc
    must = [("threading", 64, 1), ("openmp", 64, 1), ("threading", 1, n_out), ("openmp", 1, n_out),
            ("threading", 16, n_out + 3), ("openmp", 16, max(1, n_out - 1)),
            ("openmp", 2, 2 ** 32 - 1), ("openmp", 3, 2 ** 32 - n_out), ("threading", 2, 2 ** 32 - 1)]
    rest = [c for c in allc if c not in must]
    return must + rng.sample(rest, 22)


def run(ctx):
    rep, rng, sc = ctx.rep, ctx.rng, ctx.scratch
    # ---- slice_list, exhaustive -------------------------------------------------------
    jobs, menc = [], []
    for L in range(0, 41):
        for n in range(1, 46):
            lst = list(range(100, 100 + L))
            jobs.append({"kind": "slice_list", "list": lst, "n": n})
            menc.append((203, wr_list(lst) + [n]))
    jobs.append({"kind": "slice_list", "list": [1, 2], "n": 0})
    status, res = sc.run_worker("rw_worker", {"jobs": jobs})
    if status != "ok":
        raise RuntimeError("slice_list worker: %r" % (res,))
    mouts = run_models(menc)
    for j, r, mo in zip(jobs, res, mouts + [None]):
        rep.case({"slice_list": [len(j["list"]), j["n"]]}, nontrivial=len(j["list"]) > j["n"])
        if mo is None:
            ok = r["status"] == "raise" and r["type"] == "ValueError"
        else:
            rd = Reader(mo)
            parts = [rd.list() for _ in range(rd.int())]
            ok = r["status"] == "ok" and r["value"] == parts
        if not ok:
            rep.violation("ndl.slice_list differs from the model", {"correspondence": "X-sched/slice_list",
                          "theorems": ["C02_slice_list_partition"], "case": j, "impl": r, "model": mo})
            break
    rep.note("slice_list_cases", len(jobs))
    rep.coverage["exhaustive_slice_list"] = True
    rep.lap("slice_list")

    # ---- the source text of slice_list itself -------------------------------------------
    # tools/py2coq.py translates the function as it stands in the tree under test into a MiniPy term; the theorems of
    # coq/src/SrcSliceProps.v (the term computes Sched.slice_list for every list and every n >= 1) are re-checked
    # against that term, and the term is run by the kernel's VM on cases the real function ran above
    sample = [k for k, j in enumerate(jobs) if len(j["list"]) in (0, 1, 2, 5, 9, 17, 40) and j["n"] in (1, 2, 3, 7, 9, 45)]
    extra = [{"kind": "slice_list", "list": [1, 2], "n": 0}, {"kind": "slice_list", "list": [1, 2, 3], "n": -3},
             {"kind": "slice_list", "list": [7, 8, 7], "n": 2}, {"kind": "slice_list", "list": [4, 4], "n": 1}]
    status, xres = sc.run_worker("rw_worker", {"jobs": extra})
    if status != "ok":
        raise RuntimeError("slice_list worker: %r" % (xres,))
    src_cases = [(jobs[k], res[k]) for k in sample] + list(zip(extra, xres))
    cases_v = (
        "Fixpoint enc_ints (l : list value) : list Z := match l with VInt z :: r => z :: enc_ints r | _ => [] end.\n"
        "Definition enc_out (o : outcome) : list Z := match o with\n"
        " | OReturn (VList parts) => 0 :: Z.of_nat (length parts) :: flat_map (fun p => match p with VList l => "
        "Z.of_nat (length l) :: enc_ints l | _ => [-1] end) parts\n"
        " | ORaise ExValue => [1; 1] | ORaise ExAssert => [1; 2] | ORaise _ => [1; 0] | OFuel => [2] | _ => [3] end.\n"
        "Definition cases : list (list Z * Z) := [%s].\n"
        "Eval vm_compute in (map (fun c => enc_out (call 100 slice_list_src [VList (map VInt (fst c)); VInt (snd c)])) cases).\n"
        % "; ".join("([%s], %d)" % ("; ".join(map(str, j["list"])), j["n"]) for j, _ in src_cases))
    sd = core.source_derived(sc, "Slice", cases_v)
    core.fold_source_derived(ctx, sd, "ndl.slice_list")
    if sd["translated"] and sd["cases_output"] is not None:
        got = core.parse_coq_list(sd["cases_output"])
        want = []
        for j, r in src_cases:
            if r["status"] == "ok":
                enc = [0, len(r["value"])]
                for part in r["value"]:
                    enc += [len(part)] + list(part)
                want.append(enc)
            else:
                want.append([1, {"ValueError": 1, "AssertionError": 2}.get(r["type"], 0)])
        agree = got == want
        rep.note("source_term_run_by_the_vm", {"cases": len(src_cases), "agrees_with_the_real_function": agree})
        if not agree:
            # the MiniPy reading of the source and CPython disagree: the source-derived theorems say nothing about the
            # code any more (translator / semantics outside its fragment); they are not counted
            core.log("NOTE: the MiniPy term of slice_list and the real function disagree on the sampled cases")
            for t in ctx.props["theorems"]:
                if t.get("source_derived"):
                    t["assumptions"] = None
    rep.lap("slice_list_source")

    # ---- what the OpenMP loop of this build shares between its threads -------------------
    core.check_omp_sharing(ctx, "ndl_openmp", {"learn_inplace_binary_to_binary"},
                           ["C02_openmp_schedule_independent", "C02_openmp_workers_end_to_end"], observe=True)
    rep.lap("omp_sharing")

    # ---- event sets -------------------------------------------------------------------
    sets = []
    # exactly-once probes
    outs = ["o%d" % i for i in range(37)]
    sets.append({"name": "probe-once", "es": [[["c"], outs]],
                 "p": {"alpha": Fraction(1), "beta1": Fraction(1, 2), "beta2": Fraction(1, 4), "lam": Fraction(1)},
                 "pol": 0})
    sets.append({"name": "probe-5", "es": [[["c"], outs[:11]]] * 5,
                 "p": {"alpha": Fraction(1), "beta1": Fraction(1, 2), "beta2": Fraction(1, 4), "lam": Fraction(1)},
                 "pol": 0})
    for k in range(4 if ctx.thorough else 2):
        es = rwlib.gen_events(rng, rng.randint(6, 14), n_cue_alpha=6, n_out_alpha=rng.choice([7, 13]),
                              max_cues=4, max_outs=4, dups=(k % 2 == 1), file_form=True)
        sets.append({"name": "random-%d" % k, "es": es, "p": rwlib.gen_params(rng), "pol": 2 if k % 2 else 0})
    # two temporary chunk files of very unequal size: a thread that finishes its part of the long first file
    # early must not start on the second file before the others are done with the first (barrier per file)
    big = rwlib.gen_events(rng, 3000, n_cue_alpha=6, n_out_alpha=12, max_cues=3, max_outs=3, dups=False,
                           outcome_less=False, file_form=True)
    sets.append({"name": "unequal-files", "es": big, "pol": 0, "events_per_file": 2990, "relational": True,
                 "p": {"alpha": Fraction(1, 64), "beta1": Fraction(1, 4), "beta2": Fraction(1, 8), "lam": Fraction(2)}})
    if ctx.thorough:
        # more than 2^16 outcomes with one outcome per part: part index * number of outcomes exceeds 32 bits (the part
        # arithmetic of the OpenMP entry point is done in unsigned int).  Relational: the first configuration is the
        # reference.
        many = [[["c%d" % (k % 3)], ["m%d" % (1000 * k + i) for i in range(1000)]] for k in range(66)]
        sets.append({"name": "many-outcomes", "es": many, "pol": 0, "relational": True,
                     "p": {"alpha": Fraction(1, 4), "beta1": Fraction(1, 4), "beta2": Fraction(1, 8), "lam": Fraction(1)}})
    cases = []
    for st in sets:
        no, _ = rwlib.label_sets(st["es"])
        if st["name"] == "many-outcomes":
            cfgs = [("threading", 4, 20000), ("openmp", 4, 1), ("openmp", 8, 3)]
        elif st["name"] == "unequal-files":
            # the first configuration (one thread, one part) is the reference the others are compared with:
            # exact rational arithmetic over 3000 events is out of reach of the model (denominators of 2^24000)
            cfgs = [("openmp", 1, 12), ("openmp", 8, 10), ("openmp", 16, 10), ("openmp", 16, 11), ("threading", 8, 10),
                    ("openmp", 3, 5)]
        else:
            cfgs = configs(len(no.names), ctx.thorough, rng)
        for (m, nj, pj) in cfgs:
            cases.append({"learner": "ndl:" + m, "es": st["es"], "pol": st["pol"], "p": st["p"], "n_jobs": nj,
                          "n_outcomes_per_job": pj, "set": st["name"], "events_per_file": st.get("events_per_file")})
    # the OpenMP runtime may deliver fewer threads than requested (OMP_THREAD_LIMIT, OMP_DYNAMIC): every part
    # must still be trained
    limited = []
    for st in sets[:3]:
        no, _ = rwlib.label_sets(st["es"])
        for (nj, pj) in [(8, 1), (4, 2), (64, 1), (16, 3)]:
            limited.append({"learner": "ndl:openmp", "es": st["es"], "pol": st["pol"], "p": st["p"], "n_jobs": nj,
                            "n_outcomes_per_job": pj, "set": st["name"], "omp_thread_limit": 2})
    msets = [s for s in sets if not s.get("relational")]
    mres, enc, mo_all = rwlib.model_dict_tables([{"p": s["p"], "pol": s["pol"], "es": s["es"]} for s in msets])
    mtab = {s["name"]: r for s, r in zip(msets, mres)}
    reference = {}

    jobs = []
    for i, cs in enumerate(cases):
        j = job_of_case(cs)
        j["amplify"] = ctx.seed * 1000 + i
        jobs.append(j)
    hashseeds = [(ctx.seed + i) % 4294967295 for i in range(len(jobs))]
    results = sc.run_workers("rw_worker", [{"jobs": [j]} for j in jobs], timeout=DEADLINE, jobs=6,
                             hashseeds=hashseeds, max_timeouts=2)
    ljobs = [job_of_case(cs) for cs in limited]
    lres = sc.run_workers("rw_worker", [{"jobs": [j]} for j in ljobs], timeout=DEADLINE, jobs=6, max_timeouts=2,
                          extra_env={"OMP_THREAD_LIMIT": "2", "OMP_DYNAMIC": "true"})
    cases += limited
    jobs += ljobs
    results += lres
    hashseeds += [0] * len(limited)
    rep.lap("parallel_runs")
    for cs, j, (status, res), hs in zip(cases, jobs, results, hashseeds):
        if status == "skipped":
            rep.bump("skipped_after_timeouts")
            continue
        d = describe(cs)
        d.update({"set": cs["set"], "hashseed": hs})
        rep.case(d, nontrivial=cs["n_jobs"] > 1)
        rep.hist("method", cs["learner"])
        rep.hist("n_jobs", cs["n_jobs"])
        rep.hist("omp_thread_limit", cs.get("omp_thread_limit", "none"))
        rep.hist("chunk_files", 1 if not cs.get("events_per_file") else -(-len(cs["es"]) // cs["events_per_file"]))
        if status == "timeout":
            # confirm in isolation with three times the deadline
            status2, res2 = sc.run_worker("rw_worker", {"jobs": [j]}, hashseed=hs, timeout=3 * DEADLINE)
            if status2 == "timeout":
                rep.violation("parallel learner did not terminate within %d s (confirmed in isolation, %d s)" % (
                    DEADLINE, 3 * DEADLINE), {"correspondence": "X-sched/deadline",
                                              "theorems": ["C02_queue_terminates"], "case": d})
                break
            status, res = status2, res2
            rep.bump("deadline_retries")
        if status != "ok" or res[0]["status"] != "ok":
            rep.violation("parallel learner failed in a legal configuration",
                          {"correspondence": "X-sched", "case": d, "impl": str(res)[:800]})
            break
        if cs["set"] not in mtab:
            # relational set: the sequential run of the implementation is the reference
            no, nc = rwlib.label_sets(cs["es"])
            it, err = rwlib.impl_table(res[0]["value"], no, nc)
            if err:
                rep.violation(err, {"correspondence": "X-sched", "case": d})
                break
            if cs["set"] not in reference:
                reference[cs["set"]] = it
                continue
            mt = reference[cs["set"]]
        else:
            _, mt, no, nc = mtab[cs["set"]]
            it, err = rwlib.impl_table(res[0]["value"], no, nc)
            if err:
                rep.violation(err, {"correspondence": "X-sched", "case": d})
                break
        ne, nr, worst = rwlib.compare_tables(mt, it, cs["p"]["lam"])
        rep.bump("cells_exact", ne)
        rep.bump("cells_rounded", nr)
        if worst:
            worst["outcome"], worst["cue"] = no.names[worst["cell"][0]], nc.names[worst["cell"][1]]
            what = "result depends on the configuration/schedule: %r" % (worst,)
            if cs["set"].startswith("probe"):
                what = "an outcome was not trained exactly once per event: %r" % (worst,)
            rep.violation(what, {"correspondence": "X-sched", "theorems": ["C02_threading_schedule_independent",
                                                                             "C02_openmp_schedule_independent"],
                                 "case": d, "full_events": cs["es"]})
            break
    rep.coverage["traces_validated_against_impl"] += len(cases)
    # ---- the real worker loop under schedules chosen here, step-aligned with the Coq machine ---------------
    _, senc, smo = schedlib.run(ctx, 3000 if ctx.thorough else 400, "some")
    rep.lap("controlled_schedules")
    n, badi = core.coq_crosscheck(enc + menc[:100] + senc[:40], mo_all + mouts[:100] + smo[:40])
    rep.note("vm_compute_crosschecked_cases", n)
    if badi:
        rep.violation("extracted model and vm_compute disagree", {"cases": badi}, no_input=True)
