"""C07 - text event files round-trip; frequency column and input form keep their meaning."""
from fractions import Fraction

import core
import rwlib
import textlib as tl
from core import run_models

RULE = ("X-text: (a) events_to_file on containers {list of [cues, outcomes] lists, tuple of tuples, generator, "
        "iterator, pandas DataFrame; per column token list or '_'-joined string} x {gzip, plain} x compatible "
        "{False, True}: the written text equals model 702 code point for code point and events_from_file of it "
        "equals model 701 (= the events, by C07_read_write_container, for events inside the quantifier); tokens are "
        "random Unicode strings of all planes without surrogates, tab, LF, CR, underscore, a quarter of them with "
        "leading/trailing characters that str.strip()/splitlines() treat specially (VT FF FS GS RS US NEL NBSP "
        "LS PS ...), NUL, BOM; a small share of cases lies outside the quantifier (empty outcome list, empty token, "
        "underscore, LF or CR inside a token) where only model = implementation is required; (b) hand-written "
        "files: third column from {0..5, 10, 007, +2, -1} or a string int() rejects, 1- and 4-field lines, blank "
        "lines, CR LF / lone CR terminators, no final terminator, empty and header-only files, read with start "
        "0..4 and step 1..4, gzip and plain, against model 701 (events or ValueError); (c) count.cues_outcomes "
        "(n_jobs 1,2,3,5) on files with a frequency column against model 1101; (d) ndl.ndl (openmp, threading) "
        "given a path string, a pathlib.Path and a generator, dict_ndl given a path string, a list and a "
        "generator: identical labels, weights (exact rationals) and number_events between the forms, also when "
        "the file has a frequency column and the iterable holds the expanded events. A case is non-trivial when "
        "it has >= 2 events/lines; distinct by content hash.")
TRUSTED = ["gzip and the UTF-8 codec (transparent in the model)",
           "CPython text I/O (universal newlines) as modelled by TextFmt.unl/lines",
           "int() restricted to its ASCII fragment [+-]?[0-9]+ (generated frequency fields stay inside)",
           "pandas DataFrame.iterrows for the DataFrame container",
           "numpy/xarray labelled indexing used to read the returned weights"]

for _f in tl.GOOD_FREQ:
    int(_f)
for _f in tl.BAD_FREQ:
    try:
        int(_f)
    except ValueError:
        continue
    raise AssertionError("frequency string %r is accepted by int()" % _f)


# ---------------------------------------------------------------------------
# generators
# ---------------------------------------------------------------------------
def dirty_events(rng):
    """outside the quantifier: the model still has to agree with the code"""
    es = tl.clean_events(rng, rng.randint(1, 4))
    kind = rng.choice(["no_outcome", "empty_token", "underscore", "lf", "cr", "crlf", "no_cue"])
    e = rng.choice(es)
    if kind == "no_outcome":
        e[1] = []
    elif kind == "no_cue":
        e[0] = []
    elif kind == "empty_token":
        e[rng.randint(0, 1)].insert(rng.randint(0, 1), [])
    else:
        col = e[rng.randint(0, 1)]
        t = list(rng.choice(col))
        ins = {"underscore": [tl.US], "lf": [tl.LF], "cr": [tl.CR], "crlf": [tl.CR, tl.LF]}[kind]
        p = rng.randint(0, len(t))
        col[col.index(rng.choice(col))] = t[:p] + ins + t[p:]
    return es, kind


def write_cases(rng, n):
    cases = []
    forms = ["list", "tuples", "generator", "iterator", "dataframe"]
    for k in range(n):
        if k % 10 == 9:
            es, cls = dirty_events(rng)
        else:
            es, cls = tl.clean_events(rng, rng.choice([0, 1, 2, 3, 5, 9]) if k % 7 else rng.randint(10, 30)), "clean"
        form = forms[k % len(forms)]
        if form == "dataframe":
            shape = ["ss"] * len(es)
        else:
            mode = rng.choice(["ll", "ss", "mixed"])
            shape = [mode if mode != "mixed" else rng.choice(["ll", "ls", "sl", "ss"]) for _ in es]
        compatible = (k // 5) % 2 == 1
        cases.append({"kind": "write", "events": es, "form": form, "shape": shape, "gz": (k // 10) % 2 == 0,
                      "compatible": compatible, "legacy_columns": compatible and rng.random() < 0.5, "class": cls})
    return cases


def handwritten(rng, allow_bad=True, min_rows=0, max_rows=12):
    """a hand-written event file: (text, description)"""
    n = rng.randint(min_rows, max_rows)
    es = tl.clean_events(rng, n)
    lines, kinds = [], []
    for e in es:
        r = rng.random()
        if r < 0.25:
            lines.append(tl.row_line(e)); kinds.append("2col")
        elif r < 0.8 or not allow_bad:
            lines.append(tl.row_line(e, rng.choice(tl.GOOD_FREQ))); kinds.append("freq")
        elif r < 0.86:
            lines.append(tl.row_line(e, rng.choice(tl.BAD_FREQ))); kinds.append("badfreq")
        elif r < 0.9:
            lines.append(tl.join(tl.US, e[0])); kinds.append("1field")
        elif r < 0.94:
            lines.append(tl.row_line(e, "1") + [tl.TAB] + [120]); kinds.append("4fields")
        elif r < 0.97:
            lines.append([]); kinds.append("blank")
        else:
            ln = tl.row_line(e, "2")
            p = rng.randint(0, len(ln))
            lines.append(ln[:p] + [tl.CR] + ln[p:]); kinds.append("cr-inside")
    r = rng.random()
    eol = (tl.LF,) if r < 0.7 or not allow_bad else rng.choice([([tl.CR, tl.LF],), (tl.CR,), (tl.LF, [tl.CR, tl.LF], tl.CR)])
    last = rng.random() < 0.8
    header = rng.choice([tl.HEADER, tl.HEADER3, [], [120]])
    text = tl.file_text(lines, header=header, eol=eol, last_eol=last)
    if allow_bad and rng.random() < 0.04:
        text = []                                   # no header at all
    elif allow_bad and rng.random() < 0.04:
        text = list(header)                         # header without terminator, nothing else
    return text, {"rows": kinds, "eol": [e if isinstance(e, int) else list(e) for e in eol], "last_eol": last}


# ---------------------------------------------------------------------------
def run(ctx):
    rep, rng, sc = ctx.rep, ctx.rng, ctx.scratch
    thorough = ctx.thorough
    all_mcases = []

    # ---------------- (a) writer + round trip -------------------------------------
    cases = write_cases(rng, 1500 if thorough else 480)
    impl = tl.run_jobs(sc, cases)
    menc = [tl.enc_write(c["compatible"], c["events"], c["shape"]) for c in cases]
    mtext = run_models(menc)
    renc = [tl.enc_read(mt[1:], 0, 1) for mt in mtext]
    mback = run_models(renc)
    all_mcases += list(zip(menc, mtext))[:40] + list(zip(renc, mback))[:40]
    for c, r, mt, mb in zip(cases, impl, mtext, mback):
        desc = {k: c[k] for k in ("form", "gz", "compatible", "legacy_columns", "class")}
        desc["events"] = c["events"] if len(str(c["events"])) < 900 else str(c["events"])[:900] + "..."
        desc["shape"] = c["shape"][:12]
        rep.case(desc, nontrivial=len(c["events"]) >= 2)
        rep.hist("write_container", c["form"])
        rep.hist("write_class", c["class"])
        rep.hist("write_gz_compatible", "%s/%s" % (c["gz"], c["compatible"]))
        if mt[0] != 0:
            raise RuntimeError("model 702 rejected a case: %r" % (mt[:5],))
        st, mev = tl.dec_events(mb)
        clean = all(tl.is_clean_event(e) for e in c["events"])
        if clean and (st != "ok" or mev != c["events"]):
            raise RuntimeError("model contradicts C07_read_write_container on %r" % (c["events"],))
        bad = None
        if r["status"] != "ok":
            if c["class"] != "clean" and st == "err" and r.get("type") == "ValueError":
                continue                                           # e.g. a CR inside a token: both raise
            bad = "implementation raised %s: %s" % (r.get("type"), r.get("msg", r.get("detail")))
        elif r["value"]["text"] != mt[1:]:
            bad = "written text differs from the model"
        elif st == "err":
            bad = "model reader raises ValueError, implementation returned events"
        elif r["value"]["back"] != mev:
            bad = "events read back differ" + (" from the events written" if clean else " from the model")
        if bad:
            rep.violation("events_to_file/events_from_file round trip: " + bad,
                          {"correspondence": "X-text/write", "theorems": ["C07_read_write_container", "C07_read_write"],
                           "case": desc, "inside_quantifier": clean,
                           "model_text": tl.show(mt[1:])[:600], "impl": tl.trim(r),
                           "model_events": tl.trim(mev if st == "ok" else st)})
            break
    rep.lap("writer")

    # ---------------- (b) reader on hand-written files -----------------------------
    rcases = []
    for k in range(3000 if thorough else 720):
        text, d = handwritten(rng)
        start, step = rng.choice([0, 0, 0, 0, 1, 1, 2, 3, 4]), rng.choice([1, 1, 2, 3, 4])
        rcases.append({"kind": "read", "text": text, "gz": k % 2 == 0, "start": start, "step": step, "d": d})
    # fixed edge files
    e1 = [[[97]], [[120]]]
    for text in ([], tl.HEADER, tl.HEADER + [tl.LF], tl.file_text([tl.row_line(e1, "0")]),
                 tl.file_text([tl.row_line(e1, "5")], last_eol=False),
                 tl.file_text([tl.row_line(e1), []]), tl.file_text([[tl.TAB]]),
                 tl.file_text([[0x20] + tl.row_line(e1) + [0x20]]),
                 tl.file_text([[0x0b, tl.TAB, 0x85]]), tl.file_text([tl.row_line(e1, "3")], eol=(tl.CR,))):
        for start, step in ((0, 1), (1, 2)):
            rcases.append({"kind": "read", "text": list(text), "gz": True, "start": start, "step": step,
                           "d": {"rows": ["fixed"]}})
    jobs = [{k: c[k] for k in ("kind", "text", "gz", "start", "step")} for c in rcases]
    impl = tl.run_jobs(sc, jobs)
    menc = [tl.enc_read(c["text"], c["start"], c["step"]) for c in rcases]
    mouts = run_models(menc)
    all_mcases += list(zip(menc, mouts))[:60]
    for c, r, mo in zip(rcases, impl, mouts):
        desc = {"text": tl.show(c["text"])[:700], "gz": c["gz"], "start": c["start"], "step": c["step"], "rows": c["d"]["rows"]}
        rep.case(desc, nontrivial=len(c["d"]["rows"]) >= 2)
        for kd in set(c["d"]["rows"]):
            rep.hist("read_row_kinds", kd)
        rep.hist("read_start_step", "%d/%d" % (c["start"], c["step"]))
        st, mev = tl.dec_events(mo)
        rep.hist("read_result", st)
        if st == "err":
            ok = r["status"] == "raise" and r["type"] == "ValueError"
        else:
            ok = r["status"] == "ok" and r["value"] == mev
            rep.hist("read_n_events", min(len(mev), 20))
        if not ok:
            rep.violation("events_from_file differs from the reader model",
                          {"correspondence": "X-text/read", "theorems": ["C07_frequency", "C07_read_write_slice"],
                           "text_codepoints": c["text"][:800], "case": desc,
                           "model": tl.trim(mev if st == "ok" else "ValueError"), "impl": tl.trim(r)})
            break
    rep.lap("reader")

    # ---------------- (c) counting of files with a frequency column ----------------
    ccases = []
    for k in range(400 if thorough else 96):
        text, d = handwritten(rng, allow_bad=(k % 6 == 5), min_rows=1)
        ccases.append({"kind": "count", "text": text, "n_jobs": [1, 2, 3, 5][k % 4], "d": d})
    impl = tl.run_jobs(sc, [{k: c[k] for k in ("kind", "text", "n_jobs")} for c in ccases])
    menc = [(1101, core.wr_list(c["text"]) + [c["n_jobs"]]) for c in ccases]
    mouts = run_models(menc)
    for c, r, mo in zip(ccases, impl, mouts):
        desc = {"text": tl.show(c["text"])[:700], "n_jobs": c["n_jobs"], "rows": c["d"]["rows"]}
        rep.case(desc, nontrivial=len(c["d"]["rows"]) >= 2)
        m = tl.dec_counts(mo)
        rep.hist("count_result", m[0])
        if m[0] == "err":
            ok = r["status"] == "raise" and r["type"] == "ValueError"
        else:
            ok = (r["status"] == "ok" and r["value"]["n_events"] == m[1]
                  and tl.canon(r["value"]["cues"]) == tl.canon(m[2])
                  and tl.canon(r["value"]["outcomes"]) == tl.canon(m[3]))
        if not ok:
            rep.violation("count.cues_outcomes of a file with a frequency column differs from the model",
                          {"correspondence": "X-text/count", "theorems": ["C07_frequency_counts", "C11_cues_outcomes"],
                           "text_codepoints": c["text"][:800], "case": desc, "model": tl.trim(m), "impl": tl.trim(r)})
            break
    rep.lap("count")

    # ---------------- (d) the learners in their input forms ------------------------
    learner_forms(ctx, 60 if thorough else 16)
    rep.lap("learners")

    n, badi = core.coq_crosscheck([m for m, _ in all_mcases], [o for _, o in all_mcases])
    rep.note("vm_compute_crosschecked_cases", n)
    if badi:
        rep.violation("extracted model and vm_compute disagree", {"cases": badi}, no_input=True)


def learner_forms(ctx, n_groups):
    rep, rng, sc = ctx.rep, ctx.rng, ctx.scratch
    groups, jobs = [], []
    for g in range(n_groups):
        es = tl.clean_events(rng, rng.choice([1, 2, 3, 5, 8]), no_nul=True, dups=False)
        with_freq = g % 2 == 1
        if with_freq:
            freqs = [rng.choice(["0", "1", "2", "3", "5", None]) for _ in es]
            if all(f == "0" for f in freqs):
                freqs[0] = "2"
            lines = [tl.row_line(e, f) for e, f in zip(es, freqs)]
            expanded = [e for e, f in zip(es, freqs) for _ in range(1 if f is None else int(f))]
        else:
            freqs = None
            lines = [tl.row_line(e) for e in es]
            expanded = es
        text = tl.file_text(lines)
        p = rwlib.gen_params(rng)
        base = {"kind": "learn", "events": expanded, "text": text,
                "alpha": rwlib.nd(p["alpha"]), "beta1": rwlib.nd(p["beta1"]), "beta2": rwlib.nd(p["beta2"]),
                "lam": rwlib.nd(p["lam"])}
        method = ["openmp", "threading"][g % 2]
        n_jobs = rng.choice([1, 2, 3])
        # several temporary chunk files: chunk boundaries are event indices AFTER frequency expansion
        base["events_per_file"] = rng.choice([2, 3, 10000000]) if g % 4 in (1, 2) else 10000000
        members = []
        for form in ("path", "pathlib", "generator"):
            members.append(("ndl", form, dict(base, learner="ndl", form=form, method=method, n_jobs=n_jobs)))
        mda = g % 3 == 0
        for form in ("path", "list", "generator"):
            members.append(("dict_ndl", form, dict(base, learner="dict_ndl", form=form, make_data_array=mda)))
        groups.append({"events": expanded, "freqs": freqs, "text": text, "p": {k: str(v) for k, v in p.items()},
                       "events_per_file": base["events_per_file"],
                       "method": method, "n_jobs": n_jobs, "members": [(a, b) for a, b, _ in members],
                       "first_job": len(jobs)})
        jobs += [j for _, _, j in members]
    # one learner call per worker process: they are independent and ~1 s each
    results = sc.run_workers("textfmt_worker", [{"jobs": [j]} for j in jobs], timeout=600)
    # the model's number of events (frequency expansion) for every file
    mouts = run_models([tl.enc_read(g["text"], 0, 1) for g in groups])
    for g, mo in zip(groups, mouts):
        st, mev = tl.dec_events(mo)
        if st != "ok" or mev != g["events"]:
            raise RuntimeError("model contradicts C07_frequency on %r" % (g["text"],))
        desc = {"events": g["events"] if len(str(g["events"])) < 900 else str(g["events"])[:900] + "...",
                "frequency_column": g["freqs"], "params": g["p"], "method": g["method"], "n_jobs": g["n_jobs"],
                "events_per_temporary_file": g["events_per_file"]}
        rep.case(desc, nontrivial=len(g["events"]) >= 2)
        rep.hist("learner_group", "freq" if g["freqs"] else "plain")
        tables = {}
        bad = None
        for k, (learner, form) in enumerate(g["members"]):
            status, res = results[g["first_job"] + k]
            r = res[0] if status == "ok" else {"status": status, "detail": res}
            rep.bump("learner_calls")
            if r["status"] != "ok":
                bad = "%s given a %s raised %s: %s" % (learner, form, r.get("type", r["status"]),
                                                      r.get("msg", tl.trim(r.get("detail"))))
                break
            v = r["value"]
            if r.get("leftover"):
                rep.bump("leftover_files")
            outs = [tuple(o) for o in v["outcomes"]]
            cues = [tuple(c) for c in v["cues"]]
            tbl = {(o, c): rwlib.fr(v["values"][i][j]) for i, o in enumerate(outs) for j, c in enumerate(cues)}
            ne = v.get("number_events")
            if ne is not None and int(ne) != len(g["events"]):
                bad = "%s given a %s reports number_events=%s, the file denotes %d events" % (
                    learner, form, ne, len(g["events"]))
                break
            tables.setdefault(learner, []).append((form, set(outs), set(cues), tbl, ne))
        if not bad:
            for learner, lst in tables.items():
                f0, o0, c0, t0, n0 = lst[0]
                for f1, o1, c1, t1, n1 in lst[1:]:
                    if o0 != o1 or c0 != c1:
                        bad = "%s: labels differ between the forms %s and %s" % (learner, f0, f1)
                    elif n0 != n1:
                        bad = "%s: number_events differs between the forms %s (%s) and %s (%s)" % (learner, f0, n0, f1, n1)
                    else:
                        diff = [k for k in t0 if t0[k] != t1[k]]
                        if diff:
                            k = diff[0]
                            bad = "%s: weight at outcome %r cue %r is %s for %s and %s for %s" % (
                                learner, tl.show(k[0]), tl.show(k[1]), t0[k], f0, t1[k], f1)
                    if bad:
                        break
                if bad:
                    break
                rep.bump("weights_compared_exactly", len(t0) * (len(lst) - 1))
        if bad:
            rep.violation("input forms of the learners disagree: " + bad,
                          {"correspondence": "X-text/forms", "theorems": ["C07_input_form", "C07_frequency"],
                           "case": desc, "file": tl.show(g["text"])[:800]})
            break
    rep.coverage["traces_validated_against_impl"] += len(jobs)
