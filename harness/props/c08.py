"""C08 - Widrow-Hoff learners follow the delta rule in all vector flavours."""
from fractions import Fraction

import core
import rwlib
import whlib
from props.c01 import run_jobs

RULE = ("X-wh: vector tables with 1..23 dimensions (2..12 cues, 2..13 outcomes, up to 4 of each per event), small integer entries and shuffled row order (table row != id "
        "order), multi-cue / multi-outcome events with repeats (remove_duplicates=False) and without, eta = 2^-k, "
        "flavours real-real / binary-real / real-binary through wh.wh(method='openmp') for n_jobs 1..4 and "
        "n_outcomes_per_job 1..7 (also dimension counts that are not multiples of either), several temporary chunk "
        "files, the numpy method and dict_wh on single-cue/single-outcome events, and same-flavour continuation chains "
        "through weights= (argument snapshotted). Every returned cell, read through the returned labels, is compared "
        "with the exact rational result of the Coq kernel model 801 (= the delta rule by C08_*): equal -> exact, "
        "|d| <= 1e-9*scale -> rounded, else violation. A case is non-trivial when it has >= 2 events; distinct by "
        "content hash.")
TRUSTED = ["harness/omplib.py: regular expressions over the C code Cython generated for this build (names __pyx_v_*/__pyx_t_*, brace matching, private/firstprivate/lastprivate/reduction clauses)",
           "xarray/numpy labelled indexing used to read the returned weights; libgomp for the real parallel runs"]


def gen_cases(rng, n, thorough):
    cases = []
    for k in range(n):
        fl = ["r2r", "b2r", "r2b"][k % 3]
        impl = "openmp"
        single = False
        if fl == "r2r" and k % 12 == 3:
            impl = "numpy"
            single = True
        if fl == "r2r" and k % 12 == 9:
            impl = "dict_wh"
            single = True
        wide = k % 7 in (1, 4)                       # ids beyond 8: hash-set iteration order is not id order
        n_cues = rng.randint(9, 12) if wide else rng.randint(2, 7)
        n_outs = rng.randint(9, 13) if wide else rng.randint(2, 8)
        cues = ["c%d" % i for i in range(n_cues)]
        outs = ["o%d" % i for i in range(n_outs)]
        big = k % 10 == 7
        n_cd = rng.choice([1, 2, 3, 5, 7]) if not big else 23
        n_od = rng.choice([1, 2, 3, 5, 7, 9]) if not big else rng.choice([13, 23])
        cv = whlib.gen_table(rng, cues, n_cd, prefix="k") if fl in ("r2r", "r2b") else None
        ov = whlib.gen_table(rng, outs, n_od, prefix="d") if fl in ("r2r", "b2r") else None
        pol = [2, 0, 1][(k // 3) % 3]
        if single:
            pol = 0
        many_chunks = k % 9 == 4 and not single          # more than 10 temporary chunk files
        n_ev = rng.randint(22, 27) if many_chunks else rng.choice([8, 12, 16]) if wide else rng.choice([1, 2, 3, 5, 8, 12])
        events = whlib.gen_wh_events(rng, n_ev, cues, outs, dups=(pol != 0), single=single,
                                     max_c=4 if wide else 3, max_o=4 if wide else 2)
        chain = (k % 5 == 2) and n_ev >= 2 and impl != "numpy"
        cut = rng.randint(1, n_ev - 1) if chain else None
        c = {"fl": fl, "impl": impl, "eta": Fraction(1, 2 ** rng.randint(3, 6)), "cv": cv, "ov": ov,
             "pol": pol, "events": events, "cut": cut, "n_jobs": rng.randint(1, 4),
             # also the upper end of the 32-bit parameter ("everything in one job")
             "n_outcomes_per_job": rng.randint(1, 7) if k % 9 != 4 else rng.choice([2 ** 32 - 1, 2 ** 32 - 2, 2 ** 31]),
             "per": 2 if many_chunks else rng.choice([2, 3, 10000000, 10000000])}
        if chain and impl == "openmp" and rng.random() < 0.6:
            # the continued call gets the same labelled vectors with their dimension columns (and rows) in
            # another order: a legitimate continuation, the weights are aligned by dimension NAME
            c["cv2"] = whlib.permute_table(rng, cv) if cv else None
            # binary-to-real refuses outcome vector dimensions in another order (ValueError): rows only there
            c["ov2"] = whlib.permute_table(rng, ov, columns=(fl != "b2r")) if ov else None
        cases.append(c)
    return cases


def describe(c):
    d = {k: c[k] for k in ("fl", "impl", "pol", "events", "cut", "n_jobs", "n_outcomes_per_job", "per")}
    d["eta"] = str(c["eta"])
    d["cue_vectors"] = c["cv"]
    d["outcome_vectors"] = c["ov"]
    d["cue_vectors_of_continued_call"] = c.get("cv2")
    d["outcome_vectors_of_continued_call"] = c.get("ov2")
    return d


def run(ctx):
    rep, rng, sc = ctx.rep, ctx.rng, ctx.scratch
    # what the OpenMP loops of the three Widrow-Hoff entry points of this build share between their threads
    core.check_omp_sharing(ctx, "ndl_openmp", {"learn_inplace_binary_to_real", "learn_inplace_real_to_binary",
                                               "learn_inplace_real_to_real"},
                           ["C08_r2r_any_schedule", "C08_r2b_any_schedule", "C08_b2r_any_schedule"])
    cases = gen_cases(rng, 1800 if ctx.thorough else 120, ctx.thorough)
    jobs = []
    for c in cases:
        parts = [c["events"]] if c["cut"] is None else [c["events"][:c["cut"]], c["events"][c["cut"]:]]
        jobs.append({"flavour": c["fl"], "impl": c["impl"], "eta": rwlib.nd(c["eta"]), "cue_vectors": c["cv"],
                     "outcome_vectors": c["ov"], "pol": c["pol"], "parts": parts, "n_jobs": c["n_jobs"],
                     "n_outcomes_per_job": c["n_outcomes_per_job"], "per": c["per"],
                     "cue_vectors2": c.get("cv2"), "outcome_vectors2": c.get("ov2"),
                     "earlier_permuted": len(jobs) % 5 == 2})
    impl = run_jobs(sc, "wh_worker", jobs)
    rep.lap("wh_runs")
    mtabs, encs, mouts = whlib.model_tables(cases)
    rep.lap("models")
    for c, r, mt in zip(cases, impl, mtabs):
        d = describe(c)
        rep.case(d, nontrivial=len(c["events"]) >= 2)
        rep.hist("flavour", c["fl"] + ":" + c["impl"])
        rep.hist("chain", ("permuted dims" if (c.get("cv2") or c.get("ov2")) else "same vectors") if c["cut"] is not None else "no")
        rep.hist("chunks", -(-len(c["events"]) // c["per"]))
        rep.hist("policy", {0: "None", 1: "True", 2: "False"}[c["pol"]])
        bad = None
        if r.get("status") != "ok":
            bad = "learner call failed: %s" % str(r)[:500]
        else:
            v = r["value"]
            it = whlib.impl_table(v)
            if not v.get("arguments_unchanged", True):
                bad = "the weights handed to the continued call were modified"
            elif c["impl"] == "dict_wh":
                # a WeightDict is an infinite matrix with default 0
                ne, nr, worst = rwlib.compare_tables(mt, it, 1, missing_is_zero=True)
            else:
                if sorted(set(k[0] for k in it)) != sorted(set(k[0] for k in mt)) or \
                        sorted(set(k[1] for k in it)) != sorted(set(k[1] for k in mt)):
                    bad = "labels of the result differ from the vector dimensions / names of the events: %r x %r" % (
                        v["outcomes"][:6], v["cues"][:6])
                ne, nr, worst = rwlib.compare_tables(mt, it, 1)
            if not bad:
                rep.bump("cells_exact", ne)
                rep.bump("cells_rounded", nr)
                if worst:
                    bad = "weight differs from the delta rule: %r" % (worst,)
        if bad:
            rep.violation("%s %s: %s" % (c["fl"], c["impl"], bad),
                          {"correspondence": "X-wh", "theorems": ["C08_r2r", "C08_b2r", "C08_r2b",
                                                                 "C08_*_any_schedule"], "case": d})
            break
    rep.coverage["traces_validated_against_impl"] += len(cases)
    n, badi = core.coq_crosscheck(encs[:60], mouts[:60])
    rep.note("vm_compute_crosschecked_cases", n)
    if badi:
        rep.violation("extracted model and vm_compute disagree", {"cases": badi}, no_input=True)
