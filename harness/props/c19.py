"""C19 - corpus extraction is deterministic, complete and records missing files."""
import itertools
import os
from fractions import Fraction
from xml.sax.saxutils import escape, quoteattr

import core
from core import run_models, wr_list

RULE = ("X-corpus: generated trees of gzipped subtitle XML (directories nested up to 3 deep whose names sort "
        "differently by path and by component: ' ', '-', '.', upper/lower case, non-ASCII; names that do not end "
        "in '.gz'; a directory called *.gz; a followed directory link; BOM / XML declaration; ignored nested tags), "
        "sentences with every punctuation mark, multi-character punctuation, non-ASCII and astral words, words with "
        "Unicode white space at the ends, empty sentences (with a bad time tag that must be ignored), 0..4 time "
        "tags per sentence in any order, pauses of 0, 1/30, 4.9, 5-1/30, 5 (only with binary-exact times), 5+1/30, "
        "6, 20 s measured against every earlier end tag; rarely a word tag without text or a time tag that is "
        "neither S nor E (ValueError, the files before it stay written); for every tree EVERY subset of its up to "
        "4 dangling *.gz links, n_threads 1..6, directory given absolute / with trailing slash / relative, "
        "pre-existing .not_found files, existing outfile, missing directory. Compared byte for byte: the corpus "
        "file, the .not_found file (name and content), the set of files in the output directory, the exception "
        "class. Model walk order and pool schedule are random (the theorems say they are irrelevant). (b) "
        "read_clean_gzfile alone with break_duration default/0/0.5/2/5/10. A case = one run; non-trivial when the "
        "tree has at least one *.gz entry; distinct by content hash.")
TRUSTED = ["gzip, xml.etree.ElementTree (the harness writes the XML; the parsed structure handed to the model is "
           "the generator's own), UTF-8 encoding of the output file",
           "str.isspace of CPython for the characters in use (table passed to the model), os.walk / os.path.join / "
           "symlink resolution of the operating system, pathlib in io.safe_write_path",
           "multiprocessing.Pool.imap as modelled in Corpus.v (FIFO task queue, any worker, _set/_unsorted reorder "
           "buffer)"]

FPS = 30
PUNCT = list(".,:;?!()[]'")
PLAIN = ["Hello", "world", "a", "I", "x1", "na\u00efve", "\u00dcber", "\u65e5\u672c\u8a9e", "\U0001F600",
         "d'accord", "...", "?!", "--", "&", "<b>", "\"q\"", "a.b", "\u200b", "z\ufeff", "in  side", "tab\tbed",
         "\u00e9", "..", "'s", "(", "x)"]
# words with white space (str.isspace) at their ends; U+200B and U+FEFF above are NOT white space
EDGED = [" lead", "trail ", "\u00a0nb", "wide\u3000", "\u2003em", "nl\n", "\u2028ls", "\tt", " .", ", "]
BLANK = [" ", "  ", "\t", "\n", "\u00a0", "\u3000", " \u2003", "\u2028 "]


def cps(s):
    return [ord(c) for c in s]


# ---------------------------------------------------------------------------
# generators
# ---------------------------------------------------------------------------
def time_string(rng, frames):
    f = frames % FPS
    secs = frames // FPS
    h, m, s = secs // 3600, (secs // 60) % 60, secs % 60
    if s > 0 and rng.random() < 0.15:
        s, f = s - 1, f + FPS                       # same instant, frames field above 29
    if rng.random() < 0.8:
        return "%02d:%02d:%02d,%03d" % (h, m, s, f), (h, m, s, f)
    return "%d:%d:%d,%d" % (h, m, s, f), (h, m, s, f)


def gen_sentences(rng, bd_frames, n_sent=None, errors=False):
    """returns list of dict(words=[str|None], times=[(id, frames)]) ; frames are integers (1/30 s)"""
    n_sent = rng.choice([0, 1, 2, 3, 5, 8]) if n_sent is None else n_sent
    sents = []
    clock = rng.choice([0, 0, 45, 90, 3000, 108000 + 17])
    gaps = [0, 1, 14, 29, bd_frames - 3, bd_frames - 1, bd_frames, bd_frames, bd_frames + 1, bd_frames + 30,
            bd_frames + 450, 4 * bd_frames + 7]
    gaps = [g for g in gaps if g >= 0]
    for _ in range(n_sent):
        cls = rng.choice(["normal"] * 7 + ["blank", "nowords", "punct"])
        if cls == "normal":
            words = []
            for _ in range(rng.randint(1, 7)):
                r = rng.random()
                words.append(rng.choice(PUNCT) if r < 0.3 else rng.choice(EDGED) if r < 0.4 else
                             rng.choice(BLANK) if r < 0.45 else rng.choice(PLAIN))
        elif cls == "blank":
            words = [rng.choice(BLANK) for _ in range(rng.randint(1, 3))]
        elif cls == "nowords":
            words = []
        else:
            words = [rng.choice(PUNCT) for _ in range(rng.randint(1, 4))]
        if rng.random() < 0.3:
            clock = (clock // 15) * 15                # binary-exact instant
        start = clock + rng.choice(gaps)
        if rng.random() < 0.3:
            start = (start // 15) * 15
        end = start + rng.choice([0, 1, 15, 30, 45, 77, 200])
        pattern = rng.choice([["S", "E"]] * 5 + [["S"], ["E"], [], ["S", "S", "E"], ["E", "S"], ["S", "E", "S", "E"],
                                                  ["S", "S", "S"], ["E", "E"], ["S", "E", "S"]])
        times = []
        t = start
        for kind in pattern:
            if kind == "S":
                times.append((rng.choice(["T1S", "S", "T22S", "eS"]), t if rng.random() < 0.8 else start))
                t = t + rng.choice([0, 3, bd_frames + 1])
            else:
                times.append((rng.choice(["T1E", "E", "T22E", "sE"]), end if rng.random() < 0.8 else t))
                t = max(t, end) + rng.choice([0, bd_frames, bd_frames + 2])
        if cls in ("blank", "nowords") and rng.random() < 0.3:
            times.append((rng.choice(["T1X", "", "T1s", "T1e"]), start))     # ignored: the sentence is skipped
        sents.append({"words": words, "times": times})
        clock = max(end, t)
    if errors and sents:
        s = rng.choice(sents)
        if rng.random() < 0.5:
            s["words"].insert(rng.randrange(len(s["words"]) + 1), None)
        else:
            if not any(w is not None and w.strip() for w in s["words"]):
                s["words"].append("word")
            s["times"].insert(rng.randrange(len(s["times"]) + 1), (rng.choice(["T1X", "", "T1s", "1"]), 77))
    disambiguate(sents, bd_frames)
    return sents


def exact_instant(fr):
    return fr % 15 == 0


def disambiguate(sents, bd_frames):
    """float and exact comparison must agree: no start tag may lie exactly break_duration after
    ANY end tag of the file (or after 0) unless both instants are binary-exact (frames % 15 == 0)"""
    while True:
        ends = {0}
        for s in sents:
            for tid, fr in s["times"]:
                if tid[-1:] == "E":
                    ends.add(fr)
        changed = False
        for s in sents:
            for k, (tid, fr) in enumerate(s["times"]):
                if tid[-1:] == "S":
                    for e in ends:
                        if fr - e == bd_frames and not (exact_instant(fr) and exact_instant(e)):
                            s["times"][k] = (tid, fr + 1)
                            changed = True
                            break
        if not changed:
            return


def xml_of(rng, sents):
    """the XML text and the per-sentence structure the model gets"""
    parts = []
    if rng.random() < 0.5:
        parts.append('<?xml version="1.0" encoding="utf-8"?>\n')
    parts.append('<document id="4711">\n')
    if rng.random() < 0.3:
        parts.append('  <meta><s id="0"><w id="0.1">ignored</w></s></meta>\n')
    struct = []
    for si, s in enumerate(sents):
        parts.append('  <s id="%d">\n' % (si + 1))
        items = [("w", w) for w in s["words"]]
        # time tags keep their relative order, words keep theirs, interleaved at random
        merged, wi, ti = [], 0, 0
        tl = [("t", t) for t in s["times"]]
        while wi < len(items) or ti < len(tl):
            if ti >= len(tl) or (wi < len(items) and rng.random() < 0.6):
                merged.append(items[wi])
                wi += 1
            else:
                merged.append(tl[ti])
                ti += 1
        tstruct = []
        for kind, v in merged:
            if kind == "w":
                if v is None:
                    parts.append(rng.choice(['    <w id="e"/>\n', '    <w id="e"></w>\n',
                                             '    <w id="e"><b>bold</b></w>\n']))
                else:
                    parts.append('    <w id="%d.%d">%s</w>%s\n' % (si + 1, len(parts), escape(v),
                                                                  rng.choice(["", "", " tail"])))
            else:
                tid, fr = v
                ts, (h, m, sec, f) = time_string(rng, fr)
                parts.append('    <time id=%s value="%s" />\n' % (quoteattr(tid), ts))
                tstruct.append((ord(tid[-1]) if tid else -1, Fraction(h * 3600 + m * 60 + sec) + Fraction(f, FPS)))
        if rng.random() < 0.15:
            parts.append('    <i><w id="n">nested</w><time id="T9S" value="09:00:00,000" /></i>\n')
        parts.append('  </s>\n')
        struct.append({"words": s["words"], "times": tstruct})
    parts.append('</document>\n')
    return "".join(parts), struct


def gen_doc(rng, errors=False, bd_frames=150, n_sent=None):
    sents = gen_sentences(rng, bd_frames, n_sent=n_sent, errors=errors)
    text, struct = xml_of(rng, sents)
    return {"text": text, "bom": rng.random() < 0.25, "gz": True, "struct": struct}


DIRNAMES = ["a", "a b", "a-b", "a.b", "A", "b", "Z", "\u00e9", "\u65e5", "a0", "sub.gz", "d", "d1"]
GZNAMES = ["x.gz", "X.gz", "x-1.gz", "x.1.gz", "x 1.gz", "\u00e9.gz", ".gz", "y.tar.gz", "0.gz", "a.gz", "b.gz",
           "Z.gz", "z.gz", "\u65e5\u672c.gz", "\U0001F600.gz"]
LAST_NAME = "\U0001F9FFzz.gz"          # sorts after every other generated path
OTHERNAMES = ["x.gz.txt", "x.GZ", "xgz", "x.tgz", "readme", "x.gz ", "gz", "x.g"]


def gen_tree(rng, k, thorough):
    """a tree description for the worker plus, per directory, what the model's walk holds"""
    n_dirs = rng.choice([0, 1, 2, 3, 5, 7])
    dirs = [""]
    for _ in range(n_dirs):
        parent = rng.choice([d for d in dirs if d.count("/") < 2 or d == ""])
        name = rng.choice(DIRNAMES)
        d = (parent + "/" + name) if parent else name
        if d not in dirs:
            dirs.append(d)
    files, entries = [], {d: [] for d in dirs}
    used = set()
    n_files = rng.choice([0, 1, 2, 3, 4, 6, 9]) if k % 13 else 0
    for _ in range(n_files):
        d = rng.choice(dirs)
        name = rng.choice(GZNAMES) if rng.random() < 0.8 else rng.choice(OTHERNAMES)
        rel = (d + "/" + name) if d else name
        if rel in used or rel in dirs:
            continue
        used.add(rel)
        doc = gen_doc(rng)
        files.append({"rel": rel, "text": doc["text"], "bom": doc["bom"], "gz": True})
        entries[d].append((name, doc["struct"]))
    if k % 11 == 7:
        # a document that raises ValueError.  It is the LAST path in sorted order: when its error reaches
        # the loop every other job has finished, so Pool.terminate() cannot meet a worker that is killed
        # while it holds the result queue's lock (a CPython race that would make the call hang)
        doc = gen_doc(rng, errors=True, n_sent=rng.choice([1, 3, 5]))
        files.append({"rel": LAST_NAME, "text": doc["text"], "bom": doc["bom"], "gz": True})
        entries[""].append((LAST_NAME, doc["struct"]))
    links = []
    n_links = rng.choice([0, 1, 2, 2, 3, 4]) if k % 5 else 4
    if k % 26 == 13:
        n_links = 0                                   # a tree without any *.gz entry
    for j in range(n_links):
        d = rng.choice(dirs)
        name = rng.choice(["l%d.gz" % j, "L%d.gz" % j, "0l%d.gz" % j, "~%d.gz" % j, "m%d.gz" % j])
        rel = (d + "/" + name) if d else name
        if rel in used or rel in dirs:
            name = "link%d.gz" % j
            rel = (d + "/" + name) if d else name
        used.add(rel)
        doc = gen_doc(rng)
        links.append({"rel": rel, "dir": d, "name": name, "target": "t%d.gz" % j, "text": doc["text"],
                      "bom": doc["bom"], "gz": True, "struct": doc["struct"]})
    dirlinks = []
    if k % 6 == 2:
        d = rng.choice(dirs)
        name = rng.choice(["dl", "dl.gz", "Q"])
        rel = (d + "/" + name) if d else name
        if rel not in used and rel not in dirs:
            used.add(rel)
            fs = []
            for nm in rng.sample(GZNAMES, 2) + ["note.txt"]:
                doc = gen_doc(rng)
                fs.append({"rel": nm, "text": doc["text"], "bom": doc["bom"], "gz": True, "struct": doc["struct"]})
            dirlinks.append({"rel": rel, "target": "d%d" % k, "files": fs})
    return {"dirs": [d for d in dirs if d], "files": files, "links": links, "dirlinks": dirlinks,
            "entries": entries}


def model_walk(rng, tree, directory, dangling):
    """what os.walk(directory, followlinks=True) reports, in an arbitrary order"""
    def root_of(d):
        if not d:
            return directory
        return directory + ("" if directory.endswith("/") else "/") + d
    ents = {d: list(v) for d, v in tree["entries"].items()}
    for k, ln in enumerate(tree["links"]):
        ents[ln["dir"]].append((ln["name"], None if k in dangling else ln["struct"]))
    walk = [(root_of(d), fs) for d, fs in ents.items()]
    for dl in tree["dirlinks"]:
        walk.append((root_of(dl["rel"]), [(f["rel"], f["struct"]) for f in dl["files"]]))
    rng.shuffle(walk)
    for _, fs in walk:
        rng.shuffle(fs)
    return walk


def enc_sentences(struct):
    out = [len(struct)]
    for s in struct:
        out.append(len(s["words"]))
        for w in s["words"]:
            out += [0] if w is None else [1] + wr_list(cps(w))
        out.append(len(s["times"]))
        for kind, t in s["times"]:
            out += [kind, t.numerator, t.denominator]
    return out


def spaces_of(structs):
    """str.isspace table for the alphabet in use: every character of every word and the ' ' the join inserts"""
    chars = {" "}
    for st in structs:
        for s in st:
            for w in s["words"]:
                if w:
                    chars.update(w)
    return sorted(ord(c) for c in chars if c.isspace())


def gen_schedule(rng, n_tasks, n_workers):
    sched = [rng.randrange(n_workers) for _ in range(rng.randint(0, 4 * (n_tasks + n_workers)))]
    for _ in range(2 * n_tasks + 2):
        sched += list(range(n_workers))
    return sched


def enc_create(rng, walk, dir_exists, outfile_exists, taken, n_workers, mode=0):
    structs = [st for _, fs in walk for _, st in fs if st is not None]
    n_tasks = sum(1 for _, fs in walk for name, _ in fs if name.endswith(".gz"))
    out = [mode] + wr_list(spaces_of(structs)) + [1 if dir_exists else 0, 1 if outfile_exists else 0]
    out += wr_list(taken) + [n_workers] + wr_list(gen_schedule(rng, n_tasks, n_workers))
    out.append(len(walk))
    for root, fs in walk:
        out += wr_list(cps(root))
        out.append(len(fs))
        for name, st in fs:
            out += wr_list(cps(name))
            out += [0] if st is None else [1] + enc_sentences(st)
    return (1901, out), n_tasks


def dec_outcome(mo):
    r = core.Reader(mo)
    status = r.int()
    wflag = r.int()
    written = r.list()
    nflag = r.int()
    counter = r.int()
    nf = r.list()
    return {"status": status, "written": "".join(map(chr, written)) if wflag else None,
            "not_found": (counter, "".join(map(chr, nf))) if nflag else None}


def run_sharded(sc, script, jobs, weight=None, n=None, timeout=400, retry_timeout=200):
    """distribute jobs over worker processes (greedy by weight); keeps order.  The jobs of a worker that
    does not come back are run again one per process; what still fails is returned as {'_failed': ...}"""
    n = min(n or core.NCPU, max(1, len(jobs)))
    weight = weight or (lambda j: 1)
    order = sorted(range(len(jobs)), key=lambda i: -weight(jobs[i]))
    bins = [[] for _ in range(n)]
    load = [0] * n
    for i in order:
        k = load.index(min(load))
        bins[k].append(i)
        load[k] += weight(jobs[i])
    bins = [b for b in bins if b]
    results = sc.run_workers(script, [{"jobs": [jobs[i] for i in b]} for b in bins], timeout=timeout)
    out = [None] * len(jobs)
    again = []
    for b, (status, res) in zip(bins, results):
        if status != "ok":
            again += b
        else:
            for i, r in zip(b, res):
                out[i] = r
    if again:
        results = sc.run_workers(script, [{"jobs": [jobs[i]]} for i in again], timeout=retry_timeout)
        for i, (status, res) in zip(again, results):
            out[i] = res[0] if status == "ok" else {"_failed": status, "detail": res}
    return out


STATUS_EXC = {1: "OSError", 2: "OSError", 3: "ValueError", 4: "UnboundLocalError"}


def run_trees(ctx, n_trees):
    rep, rng, sc = ctx.rep, ctx.rng, ctx.scratch
    root = os.path.join(sc.dir, "c19")
    jobs, metas, mcases = [], [], []
    thread_cycle = itertools.cycle([1, 2, 3, 4, 5, 6])
    for k in range(n_trees):
        tree = gen_tree(rng, k, ctx.thorough)
        nl = len(tree["links"])
        runs = []
        subsets = [set(c) for r_ in range(nl + 1) for c in itertools.combinations(range(nl), r_)]
        for si, dangling in enumerate(subsets):
            base = os.path.join(root, "t%d" % k, "r%d" % si)
            form = ["abs", "slash", "rel"][(k + si) % 3]
            chdir = form == "rel"
            directory = {"abs": os.path.join(base, "tree"), "slash": os.path.join(base, "tree") + "/",
                         "rel": "tree"}[form]
            outfile = "out/corpus.txt" if chdir else os.path.join(base, "out", "corpus.txt")
            run = {"base": base, "dangling": sorted(dangling), "n_threads": next(thread_cycle),
                   "directory": directory, "outfile": outfile, "chdir": chdir, "pre_existing": {}}
            special = (k * 7 + si) % 17
            taken = []
            if special == 3:
                run["pre_existing"]["corpus.txt"] = "keep me\n"
            elif special == 5:
                run["no_dir"] = "missing"
            elif special == 6:
                run["no_dir"] = "file"
            elif special in (8, 9):
                run["pre_existing"]["corpus.txt.not_found"] = "old list\n"
                taken = [0]
                if special == 9:
                    run["pre_existing"]["corpus.txt.not_found-1"] = "older\n"
                    taken = [0, 1]
            elif special == 10:
                run["pre_existing"]["corpus.txt.not_found-1"] = "gap\n"
                taken = [1]
            runs.append(run)
            walk = model_walk(rng, tree, directory, dangling)
            mc, n_tasks = enc_create(rng, walk, "no_dir" not in run, "corpus.txt" in run["pre_existing"], taken,
                                     run["n_threads"])
            mcases.append(mc)
            metas.append({"tree": k, "run": run, "n_gz": n_tasks, "n_links": nl,
                          "walk": [(r_, [(n_, "missing" if s_ is None else "doc") for n_, s_ in fs]) for r_, fs in walk]})
        jobs.append({"kind": "tree", "tree": {x: tree[x] for x in ("dirs", "files", "links", "dirlinks")},
                     "runs": runs, "_k": k})
    # strip the model-only structure from what is sent to the worker
    for j in jobs:
        for ln in j["tree"]["links"]:
            ln.pop("struct", None)
        for dl in j["tree"]["dirlinks"]:
            for f in dl["files"]:
                f.pop("struct", None)
    impl = run_sharded(sc, "corpus_worker", [{k_: v for k_, v in j.items() if k_ != "_k"} for j in jobs],
                       weight=lambda j: len(j["runs"]) * (3 + len(j["tree"]["files"])))
    mouts = run_models(mcases)
    for j, res in zip(jobs, impl):
        if isinstance(res, dict) and "_failed" in res:
            rep.violation("create_corpus_from_gz did not return within the deadline (%s; confirmed by an isolated "
                          "re-run of this tree, normal duration < 5 s)" % res["_failed"],
                          {"correspondence": "X-corpus/tree", "theorems": ["C19_output", "C19_missing_recorded"],
                           "runs": j["runs"], "tree_files": [(f["rel"], f["text"]) for f in j["tree"]["files"]],
                           "tree_links": [ln["rel"] for ln in j["tree"]["links"]], "detail": res["detail"]})
            return mcases, mouts
    flat_impl = [r for res in impl for r in res]
    assert len(flat_impl) == len(mcases)
    for meta, r, mo, job_tree in zip(metas, flat_impl, mouts, [j for j in jobs for _ in j["runs"]]):
        run = meta["run"]
        if mo[0] == -2:
            raise RuntimeError("model 1901 rejected a case")
        m = dec_outcome(mo)
        if r["status"] == "skipped":
            continue
        if r["status"] in ("hang", "died"):
            # a missed deadline is confirmed by one isolated re-run with three times the deadline
            status, res = sc.run_worker("corpus_worker", {"jobs": [{"kind": "tree", "tree": job_tree["tree"],
                                                                     "runs": [dict(run, deadline=60)]}]}, timeout=200)
            r = res[0][0] if status == "ok" else {"status": "hang"}
            if r["status"] in ("hang", "died"):
                rep.violation("create_corpus_from_gz did not return within 60 s (normal duration < 1 s; the first "
                              "attempt was stopped after 20 s, this is the isolated re-run); model status %d"
                              % m["status"],
                              {"correspondence": "X-corpus/tree", "theorems": ["C19_output", "C19_missing_recorded"],
                               "run": run, "walk": meta["walk"],
                               "tree_files": [(f["rel"], f["text"]) for f in job_tree["tree"]["files"]],
                               "tree_links": [ln["rel"] for ln in job_tree["tree"]["links"]]})
                return mcases, mouts
        rep.case({"tree": meta["tree"], "dangling": run["dangling"], "n_threads": run["n_threads"],
                  "walk": meta["walk"], "pre": sorted(run["pre_existing"]), "no_dir": run.get("no_dir")},
                 nontrivial=meta["n_gz"] > 0)
        rep.hist("n_threads", run["n_threads"])
        rep.hist("dangling_links", len(run["dangling"]))
        rep.hist("gz_entries", meta["n_gz"])
        rep.hist("model_status", m["status"])
        rep.hist("not_found_file", "none" if m["not_found"] is None else "counter %d" % m["not_found"][0])
        bad = None
        expected_out = dict((n_, t.encode("utf-8").hex()) for n_, t in run["pre_existing"].items())
        if m["written"] is not None:
            expected_out["corpus.txt"] = m["written"].encode("utf-8").hex()
        if m["not_found"] is not None:
            cnt, text = m["not_found"]
            expected_out["corpus.txt.not_found" + ("-%d" % cnt if cnt else "")] = text.encode("utf-8").hex()
        if m["status"] == 0:
            if r["status"] != "ok":
                bad = "model: the run completes; implementation raised %s: %s" % (r["type"], r["msg"])
        else:
            if r["status"] != "raise" or r["type"] != STATUS_EXC[m["status"]] and not (
                    m["status"] in (1, 2) and r["type"] in ("FileExistsError", "NotADirectoryError", "FileNotFoundError")):
                bad = "model: %s; implementation: %s" % (STATUS_EXC[m["status"]],
                                                         r["type"] if r["status"] == "raise" else "no exception")
        if bad is None and r["out"] != expected_out:
            names = sorted(set(r["out"]) | set(expected_out))
            diff = [n_ for n_ in names if r["out"].get(n_, "absent") != expected_out.get(n_, "absent")]
            bad = "files in the output directory differ: %s" % diff
        if bad:
            def show(h):
                return None if h is None else bytes.fromhex(h).decode("utf-8", "replace")
            tree = job_tree["tree"]
            rep.violation("create_corpus_from_gz differs from the corpus model: " + bad,
                          {"correspondence": "X-corpus/tree",
                           "theorems": ["C19_output", "C19_missing_recorded", "C19_never_overwrites",
                                        "C19_sort_perm_invariant", "C19_imap_ordered"],
                           "run": run, "walk": meta["walk"],
                           "tree_files": [(f["rel"], f["text"]) for f in tree["files"]],
                           "tree_links": [(ln["rel"], ln["text"]) for ln in tree["links"]],
                           "model": {n_: show(h) for n_, h in expected_out.items()},
                           "impl": {n_: show(h) for n_, h in r["out"].items()},
                           "impl_status": {k_: r.get(k_) for k_ in ("status", "type", "msg")}})
            return mcases, mouts
    rep.coverage["traces_validated_against_impl"] += len(mcases)
    return mcases, mouts


def run_read(ctx, n_cases):
    """read_clean_gzfile alone, several break durations"""
    rep, rng, sc = ctx.rep, ctx.rng, ctx.scratch
    root = os.path.join(sc.dir, "c19read")
    jobs, mcases, descs = [], [], []
    for k in range(n_cases):
        bd = [None, 5.0, 0.5, 2.0, 10.0, 0.0][k % 6]
        bdq = Fraction(2) if bd is None else Fraction(bd)
        doc = gen_doc(rng, errors=(k % 9 == 4), bd_frames=int(bdq * FPS), n_sent=rng.choice([1, 2, 4, 7, 12]))
        jobs.append({"kind": "read", "base": os.path.join(root, "f%d" % k), "bd": bd,
                     "file": {"text": doc["text"], "bom": doc["bom"], "gz": True}})
        mcases.append((1902, wr_list(spaces_of([doc["struct"]])) + [bdq.numerator, bdq.denominator] +
                       enc_sentences(doc["struct"])))
        descs.append({"bd": bd, "xml": doc["text"]})
    impl = run_sharded(sc, "corpus_worker", jobs)
    mouts = run_models(mcases)
    for d, r, mo in zip(descs, impl, mouts):
        if "_failed" in r:
            raise RuntimeError("corpus_worker failed on read_clean_gzfile: %r" % (r,))
        rep.case({"read": d}, nontrivial=True)
        rep.hist("read_break_duration", d["bd"])
        if mo[0] == -1:
            ok = r["status"] == "raise" and r["type"] == "ValueError"
            expect = "ValueError"
            rep.hist("read_result", "ValueError")
        elif mo[0] == 0:
            rd = core.Reader(mo[1:])
            expect = ["".join(map(chr, rd.list())) for _ in range(rd.int())]
            ok = r["status"] == "ok" and r["value"] == expect
            rep.hist("read_result", "lines")
            rep.bump("read_lines", len(expect))
            rep.bump("read_paragraph_breaks", sum(1 for l in expect if l.startswith("\n")))
        else:
            raise RuntimeError("model 1902 rejected a case")
        if not ok:
            rep.violation("read_clean_gzfile differs from the model",
                          {"correspondence": "X-corpus/read", "theorems": ["C19_cleaning", "C19_output"],
                           "break_duration": d["bd"], "xml": d["xml"], "model": expect,
                           "impl": r.get("value") if r["status"] == "ok" else {k_: r.get(k_) for k_ in ("type", "msg")}})
            return mcases, mouts
    return mcases, mouts


def run(ctx):
    rep = ctx.rep
    mr, or_ = run_read(ctx, 4000 if ctx.thorough else 400)
    rep.lap("read")
    mt, ot = run_trees(ctx, 1000 if ctx.thorough else 110)
    rep.lap("trees")
    pairs = [(c, o) for c, o in list(zip(mr, or_))[:60] + list(zip(mt, ot))[:60] if len(c[1]) + len(o) < 3000]
    n, badi = core.coq_crosscheck([p[0] for p in pairs], [p[1] for p in pairs], max_cases=60)
    rep.note("vm_compute_crosschecked_cases", n)
    if badi:
        rep.violation("extracted model and vm_compute disagree", {"cases": badi}, no_input=True)
    rep.lap("vm_crosscheck")
