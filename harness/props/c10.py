"""C10 - event filtering is an order-preserving per-event map independent of parallelism."""
import core
from core import run_models, wr_list

RULE = ("X-filter: (a) filter_event_file on harness-written gzip files of 0..300 events (header + events; tokens drawn "
        "from small alphabets so that they repeat, incl. the empty token, Unicode and blank-containing tokens; "
        "outcome-less events; classes forced in every run: empty file, header only, header without newline, last "
        "line without newline, CR / CRLF inside the file, lines with 0 or 2 tabs, empty lines) with the rule kind "
        "{all, keep, remove, map} chosen independently for cues and outcomes (keep containers list/tuple/set/"
        "frozenset/dict), n_jobs 1..8, chunksize in {1,2,7,100000}: the decoded output must equal model 1001 "
        "(filter_text_pool) code point for code point, ValueError iff the model says so; (b) the laws on the REAL "
        "outputs: keep K == remove (U minus K) with U the token universe of the file, identity map on K == keep K "
        "('' not in K), a keep / remove / all filter applied to its own output == applied once; the same file under "
        "all four chunk sizes and n_jobs 1 and 8 gives identical bytes; (c) JobFilter.job in-process on thousands of "
        "single lines (0..3 tabs, leading/trailing newlines, empty fields) vs model 1002; (d) Pool._get_tasks vs the "
        "model's chunks (1003). A file case is non-trivial when it has >= 2 event lines; distinct by content hash.")
TRUSTED = ["gzip and the UTF-8 codec (the harness writes and reads the .gz files as bytes itself)",
           "multiprocessing.Pool.imap: ordered delivery by task index as modelled in Filter.imap_pool "
           "(chunking validated against Pool._get_tasks on every run)"]

HEADER = "cues\toutcomes\n"
CHUNKSIZES = [1, 2, 7, 100000]

ALPHABETS = [
    ["a", "b", "c"],
    ["a", "b", "c", "d", "e", "f", "g", "h"],
    ["a", "bb", "ccc", "", "d"],
    ["ü", "σς", "\U0001f600", "x y", " z", "q ", " ", "\x0b", "#", "a"],
    ["w%d" % i for i in range(12)],
]


def cps(s):
    return [ord(c) for c in s]


def enc_rule(rule):
    kind = rule[0]
    if kind == "all":
        return [0]
    if kind in ("keep", "remove"):
        out = [1 if kind == "keep" else 2, len(rule[1])]
        for t in rule[1]:
            out += wr_list(cps(t))
        return out
    out = [3, len(rule[1])]
    for k, v in rule[1]:
        out += wr_list(cps(k)) + wr_list(cps(v))
    return out


def model_case(text, rc, ro, chunksize):
    return (1001, [chunksize] + enc_rule(rc) + enc_rule(ro) + cps(text))


def dec_text(mo):
    """model output -> ('ok', str) | ('raise',)"""
    if mo[:1] == [0]:
        return ("ok", "".join(map(chr, mo[1:])))
    if mo[:2] == [-1, 1]:
        return ("raise",)
    raise RuntimeError("model could not decode the case: %r" % (mo[:5],))


# ----------------------------------------------------------------------------
def gen_event_line(rng, alpha_c, alpha_o):
    nc = rng.choice([1, 1, 2, 3, 5])
    no = rng.choice([0, 1, 1, 2, 3])
    cs = [rng.choice(alpha_c) for _ in range(nc)]
    os_ = [rng.choice(alpha_o) for _ in range(no)]
    return "_".join(cs) + "\t" + "_".join(os_) + "\n"


def gen_text(rng, n_events, alpha_c, alpha_o, flavour="plain"):
    lines = [gen_event_line(rng, alpha_c, alpha_o) for _ in range(n_events)]
    text = HEADER + "".join(lines)
    if flavour == "no_final_newline" and n_events:
        text = text[:-1]
    elif flavour == "crlf":
        text = text.replace("\n", "\r\n")
    elif flavour == "cr_inside" and n_events:
        # a CR inside a token: text mode turns it into a line break -> a line with one field
        i = rng.randrange(n_events)
        lines[i] = "a\rb\tc\n"
        text = HEADER + "".join(lines)
    elif flavour == "cr_newlines":
        text = text.replace("\n", "\r")
    elif flavour == "no_tab" and n_events:
        lines[rng.randrange(n_events)] = "abc\n"
        text = HEADER + "".join(lines)
    elif flavour == "two_tabs" and n_events:
        lines[rng.randrange(n_events)] = "a\tb\tc\n"
        text = HEADER + "".join(lines)
    elif flavour == "empty_line" and n_events:
        lines.insert(rng.randrange(n_events + 1), "\n")
        text = HEADER + "".join(lines)
    elif flavour == "odd_header":
        text = rng.choice(["", "h", "\n", "just one header line\n", "a\tb\tc\td\n"]) + "".join(lines)
    return text


def gen_rule(rng, alpha, allow_empty_token=True):
    kind = rng.choice(["all", "keep", "keep", "remove", "remove", "map", "map"])
    if kind == "all":
        return ["all"]
    pool = list(alpha) + ["zz", "never"]
    if allow_empty_token and rng.random() < 0.3:
        pool.append("")
    k = rng.randint(0, len(pool))
    toks = rng.sample(pool, k)
    if kind in ("keep", "remove"):
        if rng.random() < 0.3 and toks:
            toks = toks + [rng.choice(toks)]            # a repeated entry in the container
        cont = rng.choice(["list", "list", "tuple", "set", "frozenset", "dict"])
        return [kind, toks, cont]
    targets = list(alpha) + ["", "X", "Y", "new name", "é"]
    seen, items = set(), []
    for t in toks:
        if t not in seen:
            seen.add(t)
            items.append([t, rng.choice(targets) if rng.random() < 0.7 else t])
    return ["map", items]


def token_universe(text):
    toks = set()
    for line in text.replace("\r\n", "\n").replace("\r", "\n").split("\n")[1:]:
        for field in line.split("\t"):
            toks.update(field.split("_"))
    toks.add("")
    return sorted(toks)


def n_event_lines(text):
    return max(0, len(text.replace("\r\n", "\n").replace("\r", "\n").split("\n")) - 2)


# ----------------------------------------------------------------------------
def run(ctx):
    rep, rng, sc = ctx.rep, ctx.rng, ctx.scratch
    thorough = ctx.thorough
    n_workers = core.NCPU

    # ---------------- (d) chunking of Pool.imap --------------------------------
    tcases = [[k, list(range(n))] for n in range(0, 23) for k in (1, 2, 3, 7, 22, 23, 100000)]
    # ---------------- (c) JobFilter.job on single lines ------------------------
    line_jobs = []
    pieces = ["a", "b", "", "a_b", "_", "a__b", "_a", "b_", "ü_a", "x y", " ", "c_c_c"]
    for _ in range(150 if thorough else 40):
        alpha = rng.choice(ALPHABETS)
        rc, ro = gen_rule(rng, alpha), gen_rule(rng, alpha)
        lines = []
        for _ in range(60):
            ntab = rng.choice([0, 1, 1, 1, 1, 1, 1, 2, 3])
            body = "\t".join(rng.choice(pieces + alpha) for _ in range(ntab + 1))
            line = rng.choice(["", "", "", "\n", "\n\n"]) + body + rng.choice(["\n", "\n", "\n", "", "\n\n", " \n"])
            lines.append(line)
        lines += ["", "\n", "\t", "\t\n", "a\t", "\ta\n", "_\t_\n", "a\nb\tc\n", "a\t\tb\n", " \t \n"]
        line_jobs.append({"kind": "lines", "rc": rc, "ro": ro, "lines": lines})
    status, res = sc.run_worker("filter_worker", {"jobs": [{"kind": "tasks", "cases": tcases}] + line_jobs})
    if status != "ok":
        raise RuntimeError("filter worker failed: %r" % (res,))
    mouts = run_models([(1003, [k] + items) for k, items in tcases])
    for (k, items), got, mo in zip(tcases, res[0], mouts):
        rd = core.Reader(mo)
        want = [rd.list() for _ in range(rd.int())]
        rep.case({"get_tasks": [k, len(items)]}, nontrivial=len(items) > k)
        if got != want:
            rep.violation("Pool._get_tasks chunks differently from the model's chunks",
                          {"correspondence": "X-filter/chunks", "theorems": ["C10_imap_chunked_eq_map"],
                           "chunksize": k, "items": items, "model": want, "impl": got})
            break
    rep.note("get_tasks_cases", len(tcases))
    mcases, flat = [], []
    for j, r in zip(line_jobs, res[1:]):
        for line, got in zip(j["lines"], r):
            mcases.append((1002, enc_rule(j["rc"]) + enc_rule(j["ro"]) + cps(line)))
            flat.append((j, line, got))
    mouts = run_models(mcases)
    line_model_cases = list(zip(mcases, mouts))
    for (j, line, got), mo in zip(flat, mouts):
        rep.case({"line": line, "rc": j["rc"], "ro": j["ro"]}, nontrivial="\t" in line)
        if mo[:1] == [0]:
            want = {"status": "ok", "value": "".join(map(chr, mo[1:]))}
            rep.hist("job_result", "line")
        elif mo == [1]:
            want = {"status": "ok", "value": None}
            rep.hist("job_result", "dropped")
        elif mo == [-1, 1]:
            want = {"status": "raise", "type": "ValueError"}
            rep.hist("job_result", "ValueError")
        else:
            raise RuntimeError("model could not decode a line case")
        ok = got["status"] == want["status"] and (
            got["value"] == want["value"] if got["status"] == "ok" else got["type"] == want["type"])
        if not ok:
            rep.violation("JobFilter.job differs from the model on a single line",
                          {"correspondence": "X-filter/job",
                           "theorems": ["C10_line_dropped_iff", "C10_line_without_outcomes_kept"],
                           "line": line, "cue_rule": j["rc"], "outcome_rule": j["ro"],
                           "model": want, "impl": got})
            break
    rep.lap("lines")

    # ---------------- (a) files through filter_event_file ----------------------
    file_jobs = []          # dicts with text, rc, ro, n_jobs, chunksize, passes, tag

    def add(text, rc, ro, n_jobs, chunksize, passes=1, tag="random", group=None):
        file_jobs.append({"kind": "file", "text": text, "rc": rc, "ro": ro, "n_jobs": n_jobs,
                          "chunksize": chunksize, "passes": passes, "tag": tag, "group": group})

    flavours = ["plain"] * 8 + ["no_final_newline", "crlf", "cr_inside", "cr_newlines", "no_tab", "two_tabs",
                                "empty_line", "odd_header"]
    n_random = 1600 if thorough else 420
    for i in range(n_random):
        alpha_c = rng.choice(ALPHABETS)
        alpha_o = rng.choice(ALPHABETS)
        n = rng.choice([0, 1, 2, 3, 5, 8, 20, 50, 120, 300]) if i % 4 else rng.randint(0, 300)
        fl = flavours[i % len(flavours)]
        text = gen_text(rng, n, alpha_c, alpha_o, fl)
        rc, ro = gen_rule(rng, alpha_c), gen_rule(rng, alpha_o)
        selecting = rc[0] != "map" and ro[0] != "map"
        add(text, rc, ro, rng.randint(1, 8), CHUNKSIZES[i % 4], passes=2 if selecting else 1, tag=fl)
    # forced classes
    add("", ["all"], ["all"], 2, 1, tag="empty_file")
    add(HEADER, ["keep", ["a"], "list"], ["all"], 3, 2, passes=2, tag="header_only")
    add("cues\toutcomes", ["all"], ["all"], 1, 7, passes=2, tag="header_without_newline")
    add(HEADER + "a_b\tx\n\tx\nb\t\n", ["remove", ["a"], "set"], ["remove", ["x"], "list"], 2, 1, passes=2,
        tag="empty_cue_token")
    add(HEADER + "a_b\tx_y\n\tx\nb__a\t\nc\ty\n", ["keep", ["a", ""], "list"], ["keep", ["q"], "list"], 2, 2,
        passes=2, tag="empty_cue_token")

    # parallelism: the same file and rules under every chunk size and n_jobs 1/2/8 -> identical output
    n_par = 24 if thorough else 8
    for g in range(n_par):
        alpha = rng.choice(ALPHABETS[:3])
        text = gen_text(rng, rng.choice([37, 150, 300]), alpha, alpha)
        rc, ro = gen_rule(rng, alpha), gen_rule(rng, alpha)
        for cs in CHUNKSIZES:
            for nj in (1, 2, 8):
                add(text, rc, ro, nj, cs, tag="parallelism", group=("par", g))

    # laws on the real outputs
    n_law = 240 if thorough else 60
    for g in range(n_law):
        alpha_c = rng.choice(ALPHABETS)
        alpha_o = rng.choice(ALPHABETS)
        text = gen_text(rng, rng.choice([3, 10, 40, 120, 300]), alpha_c, alpha_o,
                        rng.choice(["plain", "plain", "no_final_newline", "crlf"]))
        U = token_universe(text)
        with_empty = g % 3 == 0
        Kc = [t for t in U if rng.random() < 0.5 and (with_empty or t != "")]
        Ko = [t for t in U if rng.random() < 0.5 and (with_empty or t != "")]
        if not with_empty:
            Kc += ["not-in-file"]
        nj, cs = rng.randint(1, 8), rng.choice(CHUNKSIZES)
        add(text, ["keep", Kc, "list"], ["keep", Ko, "set"], nj, cs, passes=2, tag="law_keep", group=("law", g, "keep"))
        add(text, ["remove", [t for t in U if t not in Kc], "list"], ["remove", [t for t in U if t not in Ko], "list"],
            rng.randint(1, 8), rng.choice(CHUNKSIZES), passes=2, tag="law_remove_complement",
            group=("law", g, "remove"))
        if not with_empty:
            add(text, ["map", [[t, t] for t in Kc]], ["map", [[t, t] for t in Ko]], rng.randint(1, 8),
                rng.choice(CHUNKSIZES), tag="law_identity_map", group=("law", g, "idmap"))

    # Files on which the model says ValueError (a line without exactly two tab fields) are filtered with one
    # process and one chunk: when the exception leaves `with Pool(...)` while other workers are still sending
    # results, CPython's Pool.terminate() can dead-lock (a worker killed while it holds the result queue's
    # lock; seen 2 times in 400 runs under load by the C15 builder). That race is CPython's, outside C10 (which
    # is about well-formed event files), and must not be able to stall this check.
    pre = run_models([model_case(j["text"], j["rc"], j["ro"], j["chunksize"]) for j in file_jobs])
    for j, mo in zip(file_jobs, pre):
        if mo and mo[0] == -1:
            j["n_jobs"], j["chunksize"] = 1, 100000
            rep.bump("malformed_files_run_with_one_process_one_chunk")
    # run: batch the cases over worker processes (every call forks its own Pool)
    order = list(range(len(file_jobs)))
    rng.shuffle(order)
    shards = [order[i::n_workers] for i in range(n_workers)]
    shards = [s for s in shards if s]
    results = sc.run_workers("filter_worker", [{"jobs": [file_jobs[i] for i in s]} for s in shards], timeout=900)
    impl = [None] * len(file_jobs)
    for s, (status, res) in zip(shards, results):
        if status != "ok":
            raise RuntimeError("filter worker failed: %r" % (res,))
        for i, r in zip(s, res):
            impl[i] = r
    rep.lap("files_impl")

    mcases = [model_case(j["text"], j["rc"], j["ro"], j["chunksize"]) for j in file_jobs]
    mouts = run_models(mcases)
    rep.lap("files_model")

    first_out = {}
    bad = False
    for idx, (j, r, mo) in enumerate(zip(file_jobs, impl, mouts)):
        nev = n_event_lines(j["text"])
        desc = {"text": j["text"] if len(j["text"]) < 400 else j["text"][:400] + "...", "n_event_lines": nev,
                "cue_rule": j["rc"], "outcome_rule": j["ro"], "n_jobs": j["n_jobs"], "chunksize": j["chunksize"]}
        rep.case(desc, nontrivial=nev >= 2)
        rep.hist("flavour", j["tag"])
        rep.hist("rule_kinds", j["rc"][0] + "/" + j["ro"][0])
        rep.hist("n_jobs", j["n_jobs"])
        rep.hist("chunksize", j["chunksize"])
        rep.hist("events", "0" if nev == 0 else "1-9" if nev < 10 else "10-99" if nev < 100 else "100-300")
        want = dec_text(mo)
        if want[0] == "raise":
            rep.bump("expected_value_errors")
            if not (r["status"] == "raise" and r["type"] == "ValueError"):
                rep.violation("a malformed line must end filter_event_file with ValueError",
                              {"correspondence": "X-filter/file", "theorems": ["C10_malformed_line_raises"],
                               "case": dict(desc, text=j["text"]), "impl": trim(r)})
                bad = True
                break
            continue
        if r["status"] != "ok":
            rep.violation("filter_event_file raised %s on a well-formed file" % r.get("type"),
                          {"correspondence": "X-filter/file", "theorems": ["C10_filter_eq_filter_map"],
                           "case": dict(desc, text=j["text"]), "impl": trim(r)})
            bad = True
            break
        outs = r["value"]
        if outs[0] != want[1]:
            rep.violation("output of filter_event_file differs from the per-event model: " +
                          first_difference(want[1], outs[0]),
                          {"correspondence": "X-filter/file",
                           "theorems": ["C10_filter_eq_filter_map", "C10_dropped_iff_no_cue_left",
                                        "C10_outcome_less_kept"],
                           "case": dict(desc, text=j["text"]), "model_output": want[1], "impl_output": outs[0]})
            bad = True
            break
        rep.coverage["traces_validated_against_impl"] += 1
        if len(outs) == 2:
            rep.bump("twice_vs_once_checked")
            if outs[1] != outs[0]:
                rep.violation("applying the same %s/%s filter to its own output changed it: %s" % (
                    j["rc"][0], j["ro"][0], first_difference(outs[0], outs[1])),
                    {"law": "twice = once", "theorems": ["C10_file_idempotent", "C10_line_idempotent"],
                     "case": dict(desc, text=j["text"]), "once": outs[0], "twice": outs[1]})
                bad = True
                break
        first_out[idx] = outs[0]
    if bad:
        return

    # relations between runs of the implementation itself
    groups = {}
    for idx, j in enumerate(file_jobs):
        if j["group"] is not None and idx in first_out:
            groups.setdefault(tuple(j["group"][:2]), []).append(idx)
    for key, idxs in groups.items():
        if key[0] == "par":
            ref = idxs[0]
            for i in idxs[1:]:
                rep.bump("parallelism_pairs_compared")
                if first_out[i] != first_out[ref]:
                    rep.violation("the result depends on n_jobs / chunksize: " +
                                  first_difference(first_out[ref], first_out[i]),
                                  {"law": "independent of parallelism", "theorems": ["C10_imap_pool_eq_map"],
                                   "text": file_jobs[ref]["text"], "cue_rule": file_jobs[ref]["rc"],
                                   "outcome_rule": file_jobs[ref]["ro"],
                                   "a": {k: file_jobs[ref][k] for k in ("n_jobs", "chunksize")},
                                   "b": {k: file_jobs[i][k] for k in ("n_jobs", "chunksize")},
                                   "out_a": first_out[ref], "out_b": first_out[i]})
                    return
        else:
            by = {file_jobs[i]["group"][2]: i for i in idxs}
            if "keep" in by and "remove" in by:
                rep.bump("keep_vs_remove_complement_checked")
                if first_out[by["keep"]] != first_out[by["remove"]]:
                    rep.violation("keep K differs from remove (universe minus K): " +
                                  first_difference(first_out[by["keep"]], first_out[by["remove"]]),
                                  {"law": "keep = remove complement",
                                   "theorems": ["C10_keep_eq_remove_complement_file"],
                                   "text": file_jobs[by["keep"]]["text"],
                                   "keep": [file_jobs[by["keep"]]["rc"], file_jobs[by["keep"]]["ro"]],
                                   "remove": [file_jobs[by["remove"]]["rc"], file_jobs[by["remove"]]["ro"]],
                                   "out_keep": first_out[by["keep"]], "out_remove": first_out[by["remove"]]})
                    return
            if "keep" in by and "idmap" in by:
                rep.bump("identity_map_vs_keep_checked")
                if first_out[by["keep"]] != first_out[by["idmap"]]:
                    rep.violation("the identity map on K differs from keep K: " +
                                  first_difference(first_out[by["keep"]], first_out[by["idmap"]]),
                                  {"law": "identity map = keep", "theorems": ["C10_identity_map_eq_keep_file"],
                                   "text": file_jobs[by["keep"]]["text"],
                                   "keep": [file_jobs[by["keep"]]["rc"], file_jobs[by["keep"]]["ro"]],
                                   "out_keep": first_out[by["keep"]], "out_map": first_out[by["idmap"]]})
                    return
    rep.lap("laws")

    # extraction vs the Coq VM on a slice
    small = [(c, o) for c, o in list(zip(mcases, mouts)) + line_model_cases if len(c[1]) < 400][:100]
    n, badi = core.coq_crosscheck([c for c, _ in small], [o for _, o in small])
    rep.note("vm_compute_crosschecked_cases", n)
    if badi:
        rep.violation("extracted model and vm_compute disagree", {"cases": badi}, no_input=True)
    rep.lap("crosscheck")


def first_difference(a, b):
    la, lb = a.split("\n"), b.split("\n")
    for i, (x, y) in enumerate(zip(la, lb)):
        if x != y:
            return "first differing line %d: expected %r, got %r" % (i, x, y)
    return "expected %d lines, got %d lines" % (len(la), len(lb))


def trim(r):
    s = repr(r)
    return s if len(s) < 1500 else s[:1500] + "..."
