"""C04 - events are chunked completely and in order, and chunking terminates."""
from fractions import Fraction

import core
import protolib
import rwlib
from core import run_models, wr_events, Reader

RULE = ("X-chunk: create_binary_event_files on files of n = 0..40 events x events_per_file 2..12 (every exact multiple "
        "for n <= 16, pairs giving >= 11 chunks, files with a frequency column) x n_jobs 1..4, with per-job delays "
        "installed before the pool forks so that conversion jobs finish in a permuted order; the returned number, the "
        "set of chunk files and every chunk's bytes are compared with model 401 (= C04_job_file / C04_reports_all_events). "
        "ndl.ndl is run on the same events (1, 2 and 7..40 of them) with different chunk sizes and must return the exact rational weights of the "
        "model for each of them (order sensitive event sequences, >= 12 chunks included) and the right number_events. "
        "Every call runs in a killable subprocess under a 120 s deadline (normal duration 0.1-2 s); a missed deadline is "
        "confirmed by an isolated 360 s re-run before it is reported. A case is non-trivial when it has >= 2 chunks; "
        "distinct by content hash. " + protolib.RULE + ".")
TRUSTED = ["multiprocessing.Pool semantics as encoded in Proto.v (apply_async on a closed pool raises, callbacks run on "
           "one result-handler thread, join waits for all submitted jobs) - validated by the real runs of this check",
           "termination of the real runs is observed as a deadline, proved for the model"]
DEADLINE = 120


def mk_events(rng, n, dup=False):
    cues = ["c%d" % i for i in range(7)]
    outs = ["o%d" % i for i in range(4)]
    es = []
    for _ in range(n):
        cs = rng.sample(cues, rng.randint(1, 3))
        os_ = rng.sample(outs, rng.randint(1, 2))
        if dup:
            cs.append(cs[0])
        es.append([cs, os_])
    return es


def expand(es, freq):
    if freq is None:
        return es
    out = []
    for e, f in zip(es, freq):
        out += [e] * f
    return out


def run(ctx):
    rep, rng, sc = ctx.rep, ctx.rng, ctx.scratch
    conv = []
    pairs = set()
    for n in range(0, 17):
        for per in range(2, 13):
            if n % per == 0:
                pairs.add((n, per))
    pairs |= {(22, 2), (23, 2), (24, 2), (36, 3), (40, 3), (33, 3), (1, 2), (1, 12), (3, 2), (5, 4), (40, 12), (13, 5)}
    pairs = sorted(pairs)
    if not ctx.thorough:
        keep = [p for p in pairs if (0 < p[0] <= 12) or p in ((0, 2), (0, 7), (24, 2), (36, 3), (23, 2), (22, 2),
                                                               (16, 8), (16, 4), (1, 2), (13, 5), (40, 12), (33, 3))]
        pairs = keep + [(rng.randint(1, 40), rng.randint(2, 12)) for _ in range(20)]
    else:
        pairs += [(rng.randint(1, 40), rng.randint(2, 12)) for _ in range(60)]
    for (n, per) in pairs:
        lines = mk_events(rng, n, dup=rng.random() < 0.15)
        freq = None
        if rng.random() < 0.3 and n > 0:
            # a frequency column: chunk boundaries are event indices AFTER expansion
            k = max(1, n // 2)
            lines = lines[:k]
            freq = [rng.choice([0, 1, 1, 2, 3]) for _ in range(k)]
        pol = rng.choice([0, 2, 2, 1]) if not rwlib.has_dups(lines) else rng.choice([0, 1, 2])
        n_jobs = rng.randint(1, 4)
        # a quarter of the conversions have a history: the same path held a shorter file (a prefix) that was converted
        # in the same process just before
        earlier = None
        if len(lines) >= 2 and rng.random() < 0.25:
            earlier = sorted(rng.sample(range(0, len(lines)), rng.randint(1, 2)))
        conv.append({"lines": lines, "freq": freq, "per": per, "n_jobs": n_jobs, "pol": pol,
                     "delays": [rng.choice([0, 0, 0.01, 0.05, 0.15]) for _ in range(rng.randint(1, 5))],
                     "fast_poll": rng.random() < 0.75, "earlier_prefixes": earlier})
    # the submit/close race: preempt the submitting thread right after apply_async's state check
    for (n, per) in [(3, 10), (4, 2), (9, 3), (5, 2)]:
        conv.append({"lines": mk_events(rng, n), "freq": None, "per": per, "n_jobs": rng.randint(1, 3), "pol": 2,
                     "delays": [0], "fast_poll": True, "race_delay": 0.03})
    jobs, menc, meta = [], [], []
    for c in conv:
        es = expand(c["lines"], c["freq"])
        no, nc = rwlib.label_sets(c["lines"])
        jobs.append({"mode": "convert", "events": c["lines"], "freq": c["freq"], "per": c["per"], "n_jobs": c["n_jobs"],
                     "pol": c["pol"], "delays": c["delays"], "fast_poll": c["fast_poll"],
                     "race_delay": c.get("race_delay"), "earlier_prefixes": c.get("earlier_prefixes"),
                     "cue_map": dict(nc.ids), "outcome_map": dict(no.ids)})
        menc.append((401, wr_events(rwlib.events_to_ids(es, no, nc)) + [c["per"], c["pol"]]))
    results = sc.run_workers("chunk_worker", jobs, timeout=DEADLINE, jobs=12, max_timeouts=2)
    mouts = run_models(menc)
    rep.lap("conversions")
    for c, j, (status, res), mo in zip(conv, jobs, results, mouts):
        if status == "skipped":
            rep.bump("skipped_after_timeouts")
            continue
        n = len(expand(c["lines"], c["freq"]))
        d = {"n_events": n, "per": c["per"], "n_jobs": c["n_jobs"], "pol": c["pol"], "delays": c["delays"],
             "freq": c["freq"], "lines": c["lines"], "fast_poll": c["fast_poll"], "race_delay": c.get("race_delay"),
             "same_path_converted_before_with_prefixes": c.get("earlier_prefixes")}
        rep.hist("path_has_a_history", bool(c.get("earlier_prefixes")))
        rep.hist("amplified_submit_close_race", bool(c.get("race_delay")))
        rep.case(d, nontrivial=n > c["per"])
        rep.hist("exact_multiple", n % c["per"] == 0)
        rep.hist("chunks", (n + c["per"] - 1) // c["per"])
        if status == "timeout":
            status, res = sc.run_worker("chunk_worker", j, timeout=3 * DEADLINE)
            if status == "timeout":
                rep.violation("create_binary_event_files did not return within %d s (confirmed in isolation, %d s): "
                              "n_events=%d events_per_file=%d n_jobs=%d" % (DEADLINE, 3 * DEADLINE, n, c["per"], c["n_jobs"]),
                              {"correspondence": "X-chunk/deadline", "theorems": ["C04_conversion_terminates"], "case": d})
                break
            rep.bump("deadline_retries")
        if status != "ok":
            rep.violation("conversion worker crashed", {"correspondence": "X-chunk", "case": d, "impl": str(res)[:800]})
            break
        bad = None
        if mo[0] == -1:
            if not (res["status"] == "raise" and res["type"] == "ValueError"):
                bad = "duplicates under remove_duplicates=None must raise ValueError, got %s" % str(res)[:200]
        elif res["status"] == "raise":
            bad = "conversion raised %s: %s" % (res["type"], res["msg"])
        else:
            rd = Reader(mo[1:])
            m_n, m_nf = rd.int(), rd.int()
            mfiles = {}
            for _ in range(m_nf):
                k = rd.int()
                mfiles["events_0_%d.dat" % k] = rd.list()
            v = res["value"]
            if v["n"] != m_n:
                bad = "reported %d events, the file has %d" % (v["n"], m_n)
            elif sorted(v["files"]) != sorted(mfiles):
                bad = "chunk files %r, expected %r" % (sorted(v["files"]), sorted(mfiles))
            else:
                for name, mb in mfiles.items():
                    ib = v["files"][name]
                    if c["pol"] == 1:
                        from props.c06 import decode
                        a, b = decode(ib), decode(mb)
                        if len(a) != len(b) or any(sorted(x[0]) != sorted(y[0]) or sorted(x[1]) != sorted(y[1])
                                                   for x, y in zip(a, b)):
                            bad = "chunk %s holds other events than events %s" % (name, "k*per..(k+1)*per")
                    elif ib != mb:
                        bad = "chunk %s differs from the model bytes" % name
        if bad:
            rep.violation("create_binary_event_files: " + bad,
                          {"correspondence": "X-chunk", "theorems": ["C04_job_file", "C04_reports_all_events"], "case": d,
                           "impl": str(res)[:600]})
            break
    rep.coverage["traces_validated_against_impl"] += len(conv)

    # ---- the names of the chunk files in the source text -----------------------------------
    # tools/py2coq.py reads the name template of create_binary_event_files, the pattern of its clean-up test and the
    # slice of every `binary_files.sort(key=...)` of ndl.py / wh.py from the tree under test; the theorems of
    # coq/src/SrcNamesProps.v (the sort key applied to the name of chunk i is i, at every site, for every i) are
    # re-checked against them, and the VM's names of chunks 0..K-1 are compared with the names the conversions above
    # produced (lenient group: a NOTE when it cannot be re-established)
    observed = set()
    for (status, res) in results:
        if status == "ok" and isinstance(res, dict) and res.get("status") == "ok" and isinstance(res.get("value"), dict):
            observed |= set(res["value"].get("files", {}))
    k_names = min(len(observed), 60)
    cases_v = ("From PV Require Import Proto.\n"
               "Definition src_name (i : nat) : list Z := fmt_names_prefix_src ++ "
               "map (fun d => 48 + Z.of_nat d) (digits i) ++ fmt_names_suffix_src.\n"
               "Eval vm_compute in (map src_name (seq 0 %d)).\n" % k_names)
    sd = core.source_derived(sc, "Names", cases_v)
    core.fold_source_derived(ctx, sd, "the names of the temporary chunk files")
    if sd["translated"] and sd["cases_output"] is not None and k_names:
        got = core.parse_coq_list(sd["cases_output"])
        vm_names = set("".join(map(chr, n)) for n in got) if got else None
        agree = vm_names is not None and (vm_names == observed if len(observed) <= 60 else vm_names <= observed)
        rep.note("source_chunk_names_run_by_the_vm", {"names": k_names, "agrees_with_the_files_written": agree})
        if not agree:
            core.log("NOTE: the chunk names read from the source text and the files the conversions wrote disagree")
            for t in ctx.props["theorems"]:
                if t.get("source_derived"):
                    t["assumptions"] = None
    rep.lap("chunk_names_source")

    # ---- more than a hundred chunks, every Widrow-Hoff learner (after seeded change C04-K: one sort site compared
    # zero-padded strings, right up to chunk 99) ------------------------------------------------
    # the same events learned from 102..105 chunks of two events and from one chunk must give the same table, bit by bit
    # (the same updates in the same order: C04_chunks_concat, C04_numeric_sort_restores_order); this is a search for a
    # failing input among the learners' own results, not a model comparison (exact rationals over 200 events round
    # differently from doubles by more than the comparison of C08 allows)
    import whlib
    from props.c01 import run_jobs
    hjobs, hdesc = [], []
    for fl in ("b2r", "r2b", "r2r"):
        cues = ["c%d" % i for i in range(4)]
        outs = ["o%d" % i for i in range(3)]
        n_ev = rng.randint(204, 210)
        events = whlib.gen_wh_events(rng, n_ev, cues, outs, dups=False, max_c=3, max_o=2)
        cv = whlib.gen_table(rng, cues, 2, prefix="k") if fl in ("r2r", "r2b") else None
        ov = whlib.gen_table(rng, outs, 2, prefix="d") if fl in ("r2r", "b2r") else None
        for per in (2, 10000000):
            hjobs.append({"flavour": fl, "impl": "openmp", "eta": rwlib.nd(Fraction(1, 16)), "cue_vectors": cv,
                          "outcome_vectors": ov, "pol": 2, "parts": [events], "n_jobs": 2, "n_outcomes_per_job": 2,
                          "per": per})
        hdesc.append({"flavour": fl, "n_events": n_ev, "chunks": -(-n_ev // 2), "events": events})
    hres = run_jobs(sc, "wh_worker", hjobs)
    for k, d in enumerate(hdesc):
        a, b = hres[2 * k], hres[2 * k + 1]
        rep.case({"hundred_chunks": d["flavour"], "n": d["n_events"]}, nontrivial=True)
        rep.hist("chunks", d["chunks"])
        if a.get("status") != "ok" or b.get("status") != "ok":
            rep.violation("Widrow-Hoff learner %s failed on %d chunks" % (d["flavour"], d["chunks"]),
                          {"correspondence": "X-chunk/order", "case": d, "impl": [str(a)[:400], str(b)[:400]]})
            break
        ta, tb = whlib.impl_table(a["value"]), whlib.impl_table(b["value"])
        if ta != tb:
            diff = [(k2, ta.get(k2), tb.get(k2)) for k2 in sorted(set(ta) | set(tb)) if ta.get(k2) != tb.get(k2)][:5]
            rep.violation("wh (%s): the weights learned from %d chunks of two events differ from the weights learned "
                          "from one chunk" % (d["flavour"], d["chunks"]),
                          {"correspondence": "X-chunk/order", "theorems": ["C04_chunks_concat",
                           "C04_numeric_sort_restores_order"], "case": d, "first_differences": str(diff)})
            break
    rep.lap("hundred_chunks")

    # ---- weights do not depend on the chunk size ------------------------------------------
    sets = []
    for k in range(8 if ctx.thorough else 5):
        n = [24, 1, 2, 9, 14, 30, 7, 40][k]          # the smallest files too: one event, two events
        es = rwlib.gen_events(rng, n, n_cue_alpha=5, n_out_alpha=3, max_cues=3, max_outs=2, dups=False,
                              outcome_less=False, file_form=True)
        sets.append({"es": es, "p": rwlib.gen_params(rng), "pol": 0})
    mres, enc, mo_all = rwlib.model_dict_tables(sets)
    ljobs, lmeta = [], []
    for si, st in enumerate(sets):
        n = len(st["es"])
        # the code documents and enforces events_per_file >= 2 ("has to be larger than 1"): never ask for 1
        pers = sorted({2, 3, 5, max(n, 2), n + 1, 10000000})
        if not ctx.thorough:
            pers = [2] + rng.sample(pers[1:], 2)
        for per in pers:
            method = rng.choice(["threading", "openmp"])
            p = st["p"]
            ljobs.append({"mode": "ndl", "events": st["es"], "per": per, "n_jobs": rng.randint(1, 3), "pol": 0,
                          "method": method, "alpha": rwlib.nd(p["alpha"]), "beta1": rwlib.nd(p["beta1"]),
                          "beta2": rwlib.nd(p["beta2"]), "lam": rwlib.nd(p["lam"]),
                          "delays": [rng.choice([0, 0.02, 0.1]) for _ in range(3)], "fast_poll": rng.random() < 0.7,
                          "earlier_prefixes": [rng.randint(1, n - 1)] if n >= 3 and rng.random() < 0.3 else None})
            lmeta.append((si, per, method))
    results = sc.run_workers("chunk_worker", ljobs, timeout=DEADLINE, jobs=12, max_timeouts=2)
    rep.lap("learner_runs")
    for j, (si, per, method), (status, res) in zip(ljobs, lmeta, results):
        if status == "skipped":
            rep.bump("skipped_after_timeouts")
            continue
        st = sets[si]
        d = {"events": st["es"], "events_per_temporary_file": per, "method": method, "n_jobs": j["n_jobs"],
             "p": {k: str(v) for k, v in st["p"].items()},
             "same_path_learned_before_with_prefixes": j.get("earlier_prefixes")}
        rep.case(d, nontrivial=len(st["es"]) > per)
        if status == "timeout":
            status, res = sc.run_worker("chunk_worker", j, timeout=3 * DEADLINE)
            if status == "timeout":
                rep.violation("ndl.ndl did not return within %d s with events_per_temporary_file=%d for %d events" % (
                    DEADLINE, per, len(st["es"])), {"correspondence": "X-chunk/deadline",
                                                     "theorems": ["C04_conversion_terminates"], "case": d})
                break
        if status != "ok" or res["status"] != "ok":
            rep.violation("ndl.ndl failed with events_per_temporary_file=%d" % per,
                          {"correspondence": "X-chunk", "case": d, "impl": str(res)[:800]})
            break
        _, mt, no, nc = mres[si]
        v = res["value"]
        it, err = rwlib.impl_table(v, no, nc)
        bad = err
        if not bad:
            ne, nr, worst = rwlib.compare_tables(mt, it, st["p"]["lam"])
            rep.bump("cells_exact", ne)
            rep.bump("cells_rounded", nr)
            if worst:
                bad = "weights depend on the chunk size / chunk order: %r" % (worst,)
            elif v["number_events_attr"] != str(len(st["es"])):
                bad = "number_events attribute %r, file has %d events" % (v["number_events_attr"], len(st["es"]))
        if bad:
            rep.violation(bad, {"correspondence": "X-chunk/weights", "theorems": ["C04_chunks_concat",
                                "C04_numeric_sort_restores_order"], "case": d})
            break
    rep.coverage["traces_validated_against_impl"] += len(ljobs)
    # ---- the real submit loop, jobs and callbacks under schedules chosen here, step-aligned with Proto.pstep -----
    _, penc, pmo = protolib.run(ctx, 2500 if ctx.thorough else 300, "some")
    rep.lap("controlled_schedules")
    menc, mouts = list(menc) + penc[:30], list(mouts) + pmo[:30]
    small = [(e, o) for e, o in zip(menc, mouts)][:80] + [(e, o) for e, o in zip(penc, pmo)][:30]
    n, badi = core.coq_crosscheck([e for e, _ in small], [o for _, o in small])
    rep.note("vm_compute_crosschecked_cases", n)
    if badi:
        rep.violation("extracted model and vm_compute disagree", {"cases": badi}, no_input=True)
