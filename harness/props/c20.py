"""C20 - band sampling returns a valid sub-table; frequency tables persist exactly."""
from fractions import Fraction

import core
from core import run_models, wr_list

RULE = ("X-band: bandsample on populations of 0..2000 words (heavy-tailed Zipf-like frequencies, one dominating "
        "word, all-equal, small uniform, zero / negative frequencies), cutoffs from below the minimum to above the "
        "maximum, sample sizes 1, powers of two, divisors of the total, arbitrary, = and > population size, 0 "
        "(ZeroDivisionError) and negative; random.Random.shuffle is pinned from the test side to a permutation "
        "recorded by the harness and handed to model 2001. When total/sample_size and every accumulator value is "
        "exactly representable as a double (denominator 2^j, total*2^j < 2^53) the returned Counter must equal the "
        "model's sample as a set of pairs; in every case the four predicates are evaluated "
        "on the real result: sub-table of the population with unchanged frequencies, all >= cutoff, size <= "
        "sample_size (when sample_size >= 1 and the frequencies that pass the cutoff are >= 1), argument unchanged "
        "- plus: the shuffle was called once on exactly the entries that pass the cutoff. "
        "X-counter: save_counter on Counters of 0..400 keys (random Unicode from all planes, '', blank-surrounded "
        "keys, U+000B/000C/001C/0085/2028/2029/FEFF, ties, zero, negative and 30-digit counts; default and custom "
        "header): file text vs model 2002 exactly, load_counter of that file vs model 2003 and vs the original "
        "items; hand-written files (duplicate keys, 1 or 3 fields, non-numeric / empty / signed / zero-padded "
        "counts, CRLF, missing final newline, CR or tab in a key) vs model 2003. A band case is non-trivial when at "
        "least 2 words pass the cutoff; a counter case when it has >= 2 keys; distinct by content hash.")
TRUSTED = ["the translator tools/py2coq.py (structural map Python ast -> MiniPy constructors, fail-closed) and the MiniPy semantics (coq/theories/MiniPy.v) as a reading of CPython for the accepted fragment; validated on this run by evaluating the generated term with vm_compute against the real function / the hand-written model",
           "the UTF-8 codec and text-mode newline handling of CPython's open() as modelled by PyText.univ_nl / "
           "split_lines (validated on the hand-written files of this run)",
           "int() is modelled only on the spellings [+-]?[0-9]+ (PyText/Band.py_int); other spellings CPython "
           "accepts (blanks, '_', non-ASCII digits) are not generated",
           "random.Random.shuffle is replaced by a recorded permutation (the property quantifies over all "
           "permutations; the model takes the permutation as an input)",
           "float vs exact step: for sample sizes where total/sample_size is not a dyadic double only the four "
           "predicates are checked, not equality with the rational model"]

DEFAULT_HEADER = "key\tfreq\n"


def cps(s):
    return [ord(c) for c in s]


# ----------------------------------------------------------------------------
def gen_population(rng, kind, n):
    if kind == "zipf":
        a = rng.choice([0.7, 1.0, 1.3, 2.0])
        c = rng.choice([n, 10 * n + 1, 1000, 10 ** 6])
        fs = [max(1, int(c / (r ** a)) + rng.randint(0, 2)) for r in range(1, n + 1)]
    elif kind == "dominant":
        fs = [rng.randint(1, 9) for _ in range(n)]
        if n:
            fs[rng.randrange(n)] = rng.choice([10 ** 4, 10 ** 6, 10 ** 9])
    elif kind == "equal":
        v = rng.choice([1, 5, 7])
        fs = [v] * n
    elif kind == "small":
        fs = [rng.randint(1, 6) for _ in range(n)]
    elif kind == "with_zero":
        fs = [rng.choice([0, 0, 1, 2, 5]) for _ in range(n)]
    else:  # negative
        fs = [rng.randint(-3, 6) for _ in range(n)]
    rng.shuffle(fs)
    return [["w%d" % i, f] for i, f in enumerate(fs)]


def exact_mode(total, size):
    """True iff every float operation of the loop is exact"""
    if size == 0:
        return True
    step = Fraction(total, size)
    den = step.denominator
    return den & (den - 1) == 0 and abs(total) * den < 2 ** 53 and den < 2 ** 40


def gen_band_case(rng, k, thorough):
    kind = ["zipf", "zipf", "zipf", "dominant", "dominant", "equal", "small", "with_zero", "negative"][k % 9]
    n = rng.choice([0, 1, 2, 3, 5, 10, 40, 200, 1000, 2000]) if k % 3 else rng.randint(0, 2000 if thorough else 700)
    pop = gen_population(rng, kind, n)
    fs = sorted(f for _, f in pop)
    if kind in ("with_zero", "negative"):
        cutoff = rng.choice([-5, 0, 0, 1, 2])
    elif not fs:
        cutoff = 5
    else:
        cutoff = rng.choice([0, 1, 2, 5, fs[len(fs) // 2], fs[len(fs) // 4], fs[-1], fs[-1] + 1, fs[0]])
    passed = [i for i, (_, f) in enumerate(pop) if f >= cutoff]
    total = sum(pop[i][1] for i in passed)
    m = len(passed)
    divisors = [d for d in range(1, min(abs(total), 5000) + 1) if total % d == 0] if total else [1]
    mode = k % 5
    if mode in (0, 1):
        size = rng.choice([1, 2, 4, 8, 16, 64, 256, 1024, 4096])
    elif mode == 2:
        size = rng.choice(divisors)
    elif mode == 3:
        size = rng.choice([3, 5, 7, 10, 50, 1000, max(1, m), m + 1, 2 * m + 3, max(1, m // 2), max(1, m // 3)])
    else:
        size = rng.choice([0, -1, -4, 1, m + 5, 50000, 6, 12])
    perm = list(range(m))
    rng.shuffle(perm)
    job = {"kind": "band", "population": pop, "sample_size": size, "cutoff": cutoff, "perm": perm,
           "as_counter": k % 4 == 0}
    return job


def band_model_case(job):
    pop = job["population"]
    flat = [job["sample_size"], job["cutoff"], len(pop)]
    for i, (_, f) in enumerate(pop):
        flat += [i, f]
    return (2001, flat + wr_list(job["perm"]))


# ----------------------------------------------------------------------------
SPECIAL_KEYS = ["", " ", " a", "a ", " a ", "a b", "\x0b", "x\x0cy", "\x1c", "\x85", "a b", " ", "﻿",
                "#", "key", "freq", "0", "-1", "\x00", "a\x00", "\U0001f600", "é", "é", "_", "a_b", "'", '"',
                "{key}", "%s", "\\t", "\\n", " ", "　x", "x　"]


def rand_key(rng):
    n = rng.choice([1, 1, 2, 3, 8])
    out = []
    for _ in range(n):
        plane = rng.random()
        if plane < 0.4:
            c = rng.randint(0x20, 0x7e)
        elif plane < 0.7:
            c = rng.randint(0xa0, 0xd7ff)
        elif plane < 0.85:
            c = rng.randint(0xe000, 0xffff)
        elif plane < 0.95:
            c = rng.randint(0x10000, 0x10ffff)
        else:
            c = rng.choice([0, 1, 0x0b, 0x0c, 0x1c, 0x1d, 0x1e, 0x1f, 0x7f, 0x85])
        out.append(chr(c))
    return "".join(out)


def gen_counter(rng, n):
    keys, seen = [], set()
    specials = rng.sample(SPECIAL_KEYS, min(len(SPECIAL_KEYS), rng.choice([0, 2, 5, len(SPECIAL_KEYS)])))
    while len(keys) < n:
        k = specials.pop() if specials else rand_key(rng)
        if k not in seen and not any(c in k for c in "\t\n\r"):
            seen.add(k)
            keys.append(k)
    style = rng.choice(["small", "ties", "wide"])
    items = []
    for k in keys:
        if style == "small":
            v = rng.randint(1, 9)
        elif style == "ties":
            v = rng.choice([1, 1, 2, 5])
        else:
            v = rng.choice([0, -1, -17, 3, 10, 99, 100, 12345678901234567890123456789, -10 ** 30, rng.randint(0, 10 ** 6)])
        items.append([k, v])
    return items


HAND_FILES = [
    "key\tfreq\na\t1\nb\t2\n",
    "key\tfreq\na\t1\na\t2\n",                 # repeated key
    "key\tfreq\na\n",                          # one field
    "key\tfreq\na\t1\t2\n",                    # three fields
    "key\tfreq\na\tx\n",                       # not a number
    "key\tfreq\na\t\n",                        # empty count
    "key\tfreq\na\t-5\nb\t+7\nc\t007\nd\t0\n",
    "key\tfreq\na\t-\n",
    "key\tfreq\na\t1\r\nb\t2\r\n",             # CRLF
    "key\tfreq\na\t1\rb\t2\r",                 # CR only
    "key\tfreq\na\t1\nb\t2",                   # no final newline
    "key\tfreq\n\t3\n \t4\n",                  # empty key, blank key
    "key\tfreq\n\n",                           # empty line
    "key\tfreq\na\rb\t1\n",                    # CR inside a key
    "",
    "only a header",
    "key\tfreq\n",
    "a\t1\nb\t2\n",                            # the first line is always skipped
    "key\tfreq\n a \t1\n \t2\n\x85\t3\n\x0b\t4\n",
    "key\tfreq\na\t1\n\nb\t2\n",
    "key\tfreq\na\t12x\n",
    "key\tfreq\na\t1-2\n",
]


def enc_counter_case(header, items):
    flat = wr_list(cps(header)) + [len(items)]
    for k, v in items:
        flat += wr_list(cps(k)) + [v]
    return (2002, flat)


def dec_loaded(mo):
    if mo[:2] == [-1, 1]:
        return None
    if mo[:1] != [0]:
        raise RuntimeError("model could not decode a load case: %r" % (mo[:5],))
    rd = core.Reader(mo[1:])
    out = []
    for _ in range(rd.int()):
        k = "".join(map(chr, rd.list()))
        out.append([k, rd.int()])
    return out


# ----------------------------------------------------------------------------
def run(ctx):
    rep, rng, sc = ctx.rep, ctx.rng, ctx.scratch
    thorough = ctx.thorough
    n_workers = core.NCPU

    # ---------------- band sampling --------------------------------------------
    n_band = 4000 if thorough else 900
    jobs = [gen_band_case(rng, k, thorough) for k in range(n_band)]
    # forced classes
    jobs.append({"kind": "band", "population": [], "sample_size": 5, "cutoff": 5, "perm": [], "as_counter": False})
    jobs.append({"kind": "band", "population": [], "sample_size": 0, "cutoff": 5, "perm": [], "as_counter": False})
    jobs.append({"kind": "band", "population": [["a", 1], ["b", 1], ["c", 10]], "sample_size": 4, "cutoff": 0,
                 "perm": [0, 1, 2], "as_counter": True})
    jobs.append({"kind": "band", "population": [["only", 10 ** 9]], "sample_size": 1, "cutoff": 5, "perm": [0],
                 "as_counter": False})
    big = gen_population(rng, "zipf", 2000)
    jobs.append({"kind": "band", "population": big, "sample_size": 4096, "cutoff": 0,
                 "perm": rng.sample(range(2000), 2000), "as_counter": True})
    dom = gen_population(rng, "dominant", 2000)
    jobs.append({"kind": "band", "population": dom, "sample_size": 64, "cutoff": 1,
                 "perm": rng.sample(range(2000), 2000), "as_counter": False})
    # default arguments of the function (sample_size=50000, cutoff=5)
    d = gen_population(rng, "zipf", 300)
    m = sum(1 for _, f in d if f >= 5)
    jobs.append({"kind": "band", "population": d, "perm": rng.sample(range(m), m), "as_counter": True})

    shards = [list(range(len(jobs)))[i::n_workers] for i in range(n_workers)]
    shards = [s for s in shards if s]
    results = sc.run_workers("band_worker", [{"jobs": [jobs[i] for i in s]} for s in shards], timeout=900)
    impl = [None] * len(jobs)
    for s, (status, res) in zip(shards, results):
        if status != "ok":
            raise RuntimeError("band worker failed: %r" % (res,))
        for i, r in zip(s, res):
            impl[i] = r
    rep.lap("band_impl")
    full = [dict(j, sample_size=j.get("sample_size", 50000), cutoff=j.get("cutoff", 5)) for j in jobs]
    mcases = [band_model_case(j) for j in full]
    mouts = run_models(mcases)
    rep.lap("band_model")

    for j, r, mo in zip(full, impl, mouts):
        pop, size, cutoff = j["population"], j["sample_size"], j["cutoff"]
        passed = [[w, f] for w, f in pop if f >= cutoff]
        total = sum(f for _, f in passed)
        exact = exact_mode(total, size)
        desc = {"population": pop if len(pop) <= 30 else "%d words, first %r" % (len(pop), pop[:10]),
                "sample_size": size, "cutoff": cutoff, "perm": j["perm"] if len(j["perm"]) <= 30 else "...",
                "n_pass_cutoff": len(passed), "total": total, "exact_mode": exact}
        rep.case({"population": pop, "sample_size": size, "cutoff": cutoff, "perm": j["perm"]},
                 nontrivial=len(passed) >= 2)
        rep.hist("band_population_size", bucket(len(pop)))
        rep.hist("band_mode", "exact" if exact else "predicates_only")

        def fail(what, **extra):
            d2 = {"correspondence": "X-band", "case": dict(desc, population=pop, perm=j["perm"]),
                  "impl": trim(r), "model": mo[:60]}
            d2.update(extra)
            rep.violation(what, d2)

        if mo[:2] == [-1, 9]:
            rep.violation("model ran out of fuel (contradicts C20_band_fuel_sufficient)", {"case": desc}, no_input=True)
            return
        if mo[:2] == [-1, 1]:
            rep.hist("band_result", "ZeroDivisionError")
            if not (r["status"] == "raise" and r["type"] == "ZeroDivisionError"):
                fail("sample_size = 0 must raise ZeroDivisionError")
                return
            if not r["arg_unchanged"]:
                fail("bandsample modified its argument", theorems=["C20_band_input_unchanged"])
                return
            continue
        if r["status"] != "ok":
            fail("bandsample raised %s" % r.get("type"))
            return
        rep.hist("band_result", "sample")
        sample = r["value"]["sample"]
        rd = core.Reader(mo[1:])
        msample = [[pop[rd.int()][0], rd.int()] for _ in range(rd.int())]
        rep.hist("band_sample_size", bucket(len(sample)))
        # the four predicates on the real result
        if not r["arg_unchanged"]:
            fail("bandsample modified its argument", theorems=["C20_band_input_unchanged"])
            return
        if r["value"]["type"] != "Counter":
            fail("bandsample did not return a Counter")
            return
        if r["shuffle_calls"] != [len(passed)]:
            fail("the shuffle was not called exactly once on the %d entries that pass the cutoff (calls: %r)" % (
                len(passed), r["shuffle_calls"]), theorems=["C20_band_subset"])
            return
        popd = {w: f for w, f in pop}
        words = [w for w, _ in sample]
        for w, f in sample:
            if w not in popd or popd[w] != f:
                fail("sampled pair %r is not a pair of the population" % ([w, f],), theorems=["C20_band_members"])
                return
            if f < cutoff:
                fail("sampled pair %r is below the cutoff %d" % ([w, f], cutoff), theorems=["C20_band_members"])
                return
        if len(set(words)) != len(words):
            fail("a word was sampled twice", theorems=["C20_band_words_distinct"])
            return
        if size >= 1 and all(f >= 1 for _, f in passed):
            rep.bump("band_size_predicate_checked")
            if len(sample) > size:
                fail("%d words sampled, sample_size is %d" % (len(sample), size), theorems=["C20_band_size"])
                return
        if exact:
            rep.coverage["traces_validated_against_impl"] += 1
            if sorted(sample) != sorted(msample):          # insertion order of the Counter is not part of the property
                fail("the sample differs from the model's (exact mode: step and every accumulator value are "
                     "dyadic doubles): expected %s, got %s" % (short(msample), short(sample)),
                     theorems=["C20_band_subset", "C20_band_size"], model_sample=msample[:200])
                return
        else:
            rep.bump("band_inexact_agrees_with_rational_model" if sorted(sample) == sorted(msample)
                     else "band_inexact_differs_from_rational_model")
    rep.lap("band_compare")

    # ---------------- the source text of the sampling loop itself ---------------------------
    # tools/py2coq.py translates the loop of bandsample as it stands in the tree under test into a MiniPy term; the
    # theorems of coq/src/SrcBandProps.v (the term computes Band.band_loop and terminates for every population) are
    # re-checked against that term, and the term is run by the kernel's VM on prepared populations of this run: its
    # sample must be the one the hand-written model (and, in exact mode, the real function) produced
    src_cases = []
    for j, r, mo in zip(full, impl, mouts):
        pop, size, cutoff = j["population"], j["sample_size"], j["cutoff"]
        if size <= 0 or len(pop) > 40 or mo[:1] == [-1] or len(src_cases) >= 60:
            continue
        idx = [i for i, (_, f) in enumerate(pop) if f >= cutoff]
        if len(j["perm"]) != len(idx):
            continue
        idx = [idx[i] for i in j["perm"]]                                  # the pinned shuffle
        idx.sort(key=lambda i: pop[i][1])                                  # list.sort is stable
        total = sum(pop[i][1] for i in idx)
        rd = core.Reader(mo[1:])
        want = []
        for _ in range(rd.int()):
            want += [rd.int(), rd.int()]
        src_cases.append((idx, [pop[i][1] for i in idx], total, size, want))
    cases_v = (
        "Definition run_band (pop : list (Z * Z)) (sn sd : Z) (vb : bool) : list Z :=\n"
        " match exec (3 * length pop + 2) (f_body bandsample_loop_src) (bind_params (f_params bandsample_loop_src)\n"
        "   [VList (map (fun e => VTuple [VInt (fst e); VInt (snd e)]) pop); VNum (Q2Qc (Qmake sn (Z.to_pos sd))); VBool vb]\n"
        "   (fun _ => None)) with\n"
        " | ONormal en' => match en' bandsample_loop_src_v_sample with\n"
        "   | Some (VList l) => flat_map (fun t => match t with VTuple [VInt w; VInt f] => [w; f] | _ => [-1] end) l\n"
        "   | _ => [-2] end\n"
        " | ORaise _ => [-3] | OFuel => [-4] | OReturn _ => [-5] end.\n"
        "Definition cases : list (list (Z * Z) * Z * Z) := [%s].\n"
        "Eval vm_compute in (map (fun c => match c with (pop, sn, sd) => run_band pop sn sd (Z.even sn) end) cases).\n"
        % "; ".join("([%s], %d, %d)" % ("; ".join("(%d, %d)" % (i, f) for i, f in zip(ix, fs)), total, size)
                    for ix, fs, total, size, _ in src_cases))
    sd = core.source_derived(sc, "Band", cases_v)
    core.fold_source_derived(ctx, sd, "the sampling loop of preprocess.bandsample")
    if sd["translated"] and sd["cases_output"] is not None:
        got = core.parse_coq_list(sd["cases_output"])
        agree = got == [c[4] for c in src_cases]
        rep.note("source_term_run_by_the_vm", {"cases": len(src_cases), "agrees_with_the_hand_written_model": agree})
        if not agree:
            core.log("NOTE: the MiniPy term of the sampling loop and the hand-written model disagree on the sampled cases")
            for t in ctx.props["theorems"]:
                if t.get("source_derived"):
                    t["assumptions"] = None
    rep.lap("band_source")

    # ---------------- counters --------------------------------------------------
    n_cnt = 2500 if thorough else 500
    cjobs = []
    for k in range(n_cnt):
        n = rng.choice([0, 1, 2, 3, 5, 10, 40, 150, 400]) if k % 3 else rng.randint(0, 120)
        job = {"kind": "counter", "items": gen_counter(rng, n)}
        vals = [v for _, v in job["items"]]
        if k % 2 == 0 and len(set(vals)) >= 2:
            # the same keys with the values rotated: another table whose file has the same size
            job["items2"] = [[key, v] for (key, _), v in zip(job["items"], vals[1:] + vals[:1])]
        if k % 7 == 0:
            job["header"] = rng.choice(["k\tf\n", "word\tcount\tcomment\n", "# only one line\n", "ключ\tчастота\n"])
        cjobs.append(job)
    cjobs.append({"kind": "counter", "items": [["", 2], ["a", 2], [" b ", 1]]})
    cjobs.append({"kind": "counter", "items": [[k, i % 3] for i, k in enumerate(SPECIAL_KEYS)]})
    ljobs = [{"kind": "load", "text": t} for t in HAND_FILES]
    alljobs = cjobs + ljobs
    shards = [list(range(len(alljobs)))[i::n_workers] for i in range(n_workers)]
    shards = [s for s in shards if s]
    results = sc.run_workers("band_worker", [{"jobs": [alljobs[i] for i in s]} for s in shards], timeout=900)
    cimpl = [None] * len(alljobs)
    for s, (status, res) in zip(shards, results):
        if status != "ok":
            raise RuntimeError("band worker failed: %r" % (res,))
        for i, r in zip(s, res):
            cimpl[i] = r
    rep.lap("counter_impl")
    smodel = run_models([enc_counter_case(j.get("header", DEFAULT_HEADER), j["items"]) for j in cjobs])
    texts = []
    for j, r, mo in zip(cjobs, cimpl, smodel):
        items = j["items"]
        rep.case({"counter": items, "header": j.get("header")}, nontrivial=len(items) >= 2)
        rep.hist("counter_keys", bucket(len(items)))
        desc = {"items": items if len(items) <= 40 else items[:40] + ["..."], "header": j.get("header", DEFAULT_HEADER)}
        if r["status"] != "ok":
            rep.violation("save_counter raised %s" % r.get("type"),
                          {"correspondence": "X-counter/save", "case": desc, "impl": trim(r)})
            return
        v = r["value"]
        want = "".join(map(chr, mo[1:]))
        # the order of the lines after the header is irrelevant to the property (model: most_common order)
        if mo[:1] != [0] or not same_lines(v["text"], want, j.get("header", DEFAULT_HEADER)):
            rep.violation("the file written by save_counter differs from the model",
                          {"correspondence": "X-counter/save", "theorems": ["C20_counter_roundtrip"],
                           "case": desc, "model_text": want[:2000], "impl_text": v["text"][:2000]})
            return
        if not v["arg_unchanged"]:
            rep.violation("save_counter modified its argument", {"case": desc})
            return
        if "items2" in j:
            rep.bump("overwrite_same_path_histories", 1)
            l1, l2 = v["load"], v.get("load2")
            if l1["status"] == "ok" and {a: b for a, b in l1["value"]} == {a: b for a, b in items}:
                # the table round-trips, so the table with the same keys saved over it must too
                if l2 is None or l2["status"] != "ok" or {a: b for a, b in l2["value"]} != {a: b for a, b in j["items2"]}:
                    d2 = dict(desc)
                    d2["second_table_saved_to_the_same_path"] = j["items2"][:40]
                    d2["loaded"] = trim(l2) if l2 else None
                    rep.violation("a second table saved to the same path and loaded again is not that table",
                                  {"correspondence": "X-counter/load", "theorems": ["C20_counter_roundtrip"],
                                   "case": d2})
                    return
        texts.append(v["text"])
    lmodel = run_models([(2003, cps(t)) for t in texts + HAND_FILES])
    loads = [r["value"]["load"] for r in cimpl[:len(cjobs)]] + cimpl[len(cjobs):]
    origs = [j["items"] for j in cjobs] + [None] * len(HAND_FILES)
    for t, got, mo, orig in zip(texts + HAND_FILES, loads, lmodel, origs):
        want = dec_loaded(mo)
        hand = orig is None
        if hand:
            rep.case({"load": t}, nontrivial=t.count("\n") >= 2)
        rep.hist("load_result", ("hand:" if hand else "saved:") + ("ValueError" if want is None else "ok"))
        detail = {"correspondence": "X-counter/load", "theorems": ["C20_counter_roundtrip"],
                  "file_text": t[:2000], "model": want if want is None else want[:50], "impl": trim(got)}
        if not hand:
            detail["counter"] = orig[:50]
            # the property itself, on the real code: load(save(c)) == c
            if got["status"] != "ok":
                rep.violation("load_counter could not read a file written by save_counter: %s %s" % (
                    got.get("type"), got.get("msg")), detail)
                return
            if sorted(map(tuple, got["value"])) != sorted(map(tuple, orig)):
                rep.violation("load_counter(save_counter(c)) differs from c", detail)
                return
        if want is None:
            if not (got["status"] == "raise" and got["type"] == "ValueError"):
                rep.violation("load_counter accepted a file the model rejects with ValueError", detail)
                return
        elif got["status"] != "ok" or sorted(map(tuple, got["value"])) != sorted(map(tuple, want)):
            rep.violation("load_counter differs from the model", detail)
            return
        rep.coverage["traces_validated_against_impl"] += 1
    rep.lap("counter_compare")

    # extraction vs the Coq VM on a slice
    small = [(c, o) for c, o in zip(mcases, mouts) if len(c[1]) < 300][:60]
    small += [((2003, cps(t)), o) for t, o in zip((texts + HAND_FILES)[-60:], lmodel[-60:]) if len(t) < 300]
    n, badi = core.coq_crosscheck([c for c, _ in small], [o for _, o in small])
    rep.note("vm_compute_crosschecked_cases", n)
    if badi:
        rep.violation("extracted model and vm_compute disagree", {"cases": badi}, no_input=True)
    rep.lap("crosscheck")


def same_lines(a, b, header):
    if not (a.startswith(header) and b.startswith(header)):
        return False
    return sorted(a[len(header):].split("\n")) == sorted(b[len(header):].split("\n")) and a.endswith("\n") == b.endswith("\n")


def bucket(n):
    return "0" if n == 0 else "1-9" if n < 10 else "10-99" if n < 100 else "100-999" if n < 1000 else "1000+"


def short(l):
    s = repr(l)
    return s if len(s) < 300 else s[:300] + "..."


def trim(r):
    s = repr(r)
    return s if len(s) < 1500 else s[:1500] + "..."
