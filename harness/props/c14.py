"""C14 - Widrow-Hoff with unit vectors reproduces Rescorla-Wagner learning."""
from fractions import Fraction

import core
import rwlib
import whlib
from props.c01 import run_jobs, check_cases, gen_cases as rw_cases

RULE = ("wh.wh with one-hot cue and/or outcome vectors (random injective dimension assignment, shuffled table rows, "
        "spare dimensions) against ndl.ndl(alpha=1, betas=(eta, eta), lambda=1) on the SAME event file - real code on "
        "both sides - for the three flavours, openmp (n_jobs 1..4, n_outcomes_per_job 1..7, several temporary chunk files "
        "incl. more than 10) plus numpy and dict_wh on single-cue/single-outcome events, repeated cues with "
        "remove_duplicates=False on both sides, outcomes unique within an event, and remove_duplicates=True on both sides with repeated cues and outcomes (alphabets of up to 12 cues / 14 outcomes); and wh.wh without tables against "
        "ndl.ndl (delegation). After renaming dimensions to names the two tables must agree as exact rationals "
        "(|d| <= 1e-9 tolerated as rounding). The theorems are about the models, so a reduced X-wh and X-rw "
        "correspondence runs as well; if one of them breaks while no disagreement between wh and ndl is found the "
        "violation carries no-failing-input-found. Non-trivial: >= 2 events; distinct by content hash.")
TRUSTED = ["xarray/numpy labelled indexing; libgomp"]


def run(ctx):
    rep, rng, sc = ctx.rep, ctx.rng, ctx.scratch
    cases, wjobs, rjobs = [], [], []
    n = 800 if ctx.thorough else 48
    for k in range(n):
        fl = ["b2r", "r2b", "r2r", "none"][k % 4]
        impl, single = "openmp", False
        if fl == "r2r" and k % 16 == 2:
            impl, single = "numpy", True
        if fl == "r2r" and k % 16 == 10:
            impl, single = "dict_wh", True
        n_cues, n_outs = rng.randint(2, 6), rng.randint(2, 9)
        if k % 5 == 1 or (k // 4) % 3 == 2:
            n_cues, n_outs = rng.randint(7, 12), rng.randint(10, 14)      # ids beyond 8: hash-set orders differ
        cues = ["c%d" % i for i in range(n_cues)]
        outs = ["o%d" % i for i in range(n_outs)]
        many_chunks = k % 8 == 5
        n_ev = rng.randint(22, 26) if many_chunks else rng.choice([1, 2, 3, 5, 8, 12])
        pol = [2, 0, 1][(k // 4) % 3] if not single else 0      # remove_duplicates False / None / True
        es = []
        for _ in range(n_ev):
            if single:
                es.append([[rng.choice(cues)], [rng.choice(outs)]])
                continue
            cs = rng.sample(cues, rng.randint(1, min(4, n_cues)))
            if pol in (1, 2) and rng.random() < 0.5:
                cs.append(cs[0])
            os_ = rng.sample(outs, rng.randint(1, min(4, n_outs)))       # unique within the event ...
            if pol == 1 and rng.random() < 0.3:
                os_.append(os_[0])                                       # ... unless both sides remove duplicates
            es.append([cs, os_])
        used_c = sorted({c for cs, _ in es for c in cs})
        used_o = sorted({o for _, os_ in es for o in os_})
        cv, cmap, ov, omap = None, None, None, None
        if fl in ("r2b", "r2r"):
            cv, cmap = whlib.onehot_table(rng, cues, "k", extra_dims=rng.choice([0, 0, 2]))
        if fl in ("b2r", "r2r"):
            ov, omap = whlib.onehot_table(rng, outs, "d", extra_dims=rng.choice([0, 0, 3]))
        eta = Fraction(1, 2 ** rng.randint(2, 5))
        per = 2 if many_chunks else rng.choice([3, 10000000, 10000000])
        c = {"fl": fl, "impl": impl, "events": es, "eta": eta, "pol": pol, "cv": cv, "ov": ov, "cmap": cmap, "omap": omap,
             "n_jobs": rng.randint(1, 4), "n_outcomes_per_job": rng.randint(1, 7), "per": per,
             "used_c": used_c, "used_o": used_o}
        cases.append(c)
        wjobs.append({"flavour": fl if fl != "none" else "b2r", "impl": impl, "eta": rwlib.nd(eta), "cue_vectors": cv,
                      "outcome_vectors": ov, "pol": pol, "parts": [es], "n_jobs": c["n_jobs"],
                      "n_outcomes_per_job": c["n_outcomes_per_job"], "per": per, "no_tables": fl == "none",
                      # a quarter of the calls have a history: the same file learned from just before, in the same process,
                      # with the vectors listed in another row order
                      "earlier_permuted": fl != "none" and len(cases) % 4 == 1})
        rjobs.append({"kind": "ndl", "events": es, "pol": pol, "alpha": [1, 1], "beta1": rwlib.nd(eta),
                      "beta2": rwlib.nd(eta), "lam": [1, 1], "method": rng.choice(["openmp", "threading"]),
                      "n_jobs": 2, "n_outcomes_per_job": 3})
    wres = run_jobs(sc, "wh_worker", wjobs)
    rres = run_jobs(sc, "rw_worker", rjobs)
    rep.lap("runs")
    witness = False
    for c, w, r in zip(cases, wres, rres):
        d = {k: c[k] for k in ("fl", "impl", "events", "pol", "n_jobs", "n_outcomes_per_job", "per")}
        d["eta"] = str(c["eta"])
        d["cue_vectors"], d["outcome_vectors"] = c["cv"], c["ov"]
        rep.case(d, nontrivial=len(c["events"]) >= 2)
        rep.hist("flavour", c["fl"] + ":" + c["impl"])
        rep.hist("chunks", (len(c["events"]) + c["per"] - 1) // c["per"])
        bad = None
        if w.get("status") != "ok" or r.get("status") != "ok":
            bad = "a learner call failed: wh=%s ndl=%s" % (str(w)[:300], str(r)[:300])
        else:
            wt = whlib.impl_table(w["value"])
            rt = {(o, cc): rwlib.fr(r["value"]["values"][i][j]) for i, o in enumerate(r["value"]["outcomes"])
                  for j, cc in enumerate(r["value"]["cues"])}
            for (o, cc), rv in rt.items():
                ro = c["omap"][o] if c["omap"] else o
                rc = c["cmap"][cc] if c["cmap"] else cc
                wv = wt.get((ro, rc), Fraction(0) if c["impl"] == "dict_wh" else None)
                if wv is None or abs(wv - rv) > Fraction(1, 10**9) * max(1, abs(rv)):
                    bad = "wh weight at (%s -> %s, %s -> %s) is %s, ndl.ndl gives %s" % (
                        o, ro, cc, rc, None if wv is None else float(wv), float(rv))
                    break
                rep.bump("cells_exact" if wv == rv else "cells_rounded")
            if not bad:
                # dimensions that belong to no name (spare dims, names that never occur) stay zero
                img_o = {c["omap"][o] if c["omap"] else o for o in c["used_o"]}
                img_c = {c["cmap"][x] if c["cmap"] else x for x in c["used_c"]}
                for (ro, rc), wv in wt.items():
                    if (ro not in img_o or rc not in img_c) and wv != 0 and c["fl"] != "none":
                        # rows of names that never occur are legitimately trained towards 0 only if they exist in ndl too
                        if ro in img_o or (c["omap"] and ro in c["omap"].values()):
                            continue
                        bad = "a spare dimension (%s, %s) has weight %s" % (ro, rc, float(wv))
                        break
        if bad:
            witness = True
            rep.violation("%s %s: %s" % (c["fl"], c["impl"], bad),
                          {"correspondence": "C14-wh-vs-ndl", "theorems": ["C14_%s_onehot" % (c["fl"] if c["fl"] != "none" else "delegation")],
                           "case": d, "cue_dimension_of": c["cmap"], "outcome_dimension_of": c["omap"]})
            break
    rep.coverage["traces_validated_against_impl"] += 2 * len(cases)

    # reduced correspondences through which the theorems transfer
    before = len(rep.violations)
    from props import c08
    wc = c08.gen_cases(rng, 24, False)
    jobs = []
    for c in wc:
        parts = [c["events"]] if c["cut"] is None else [c["events"][:c["cut"]], c["events"][c["cut"]:]]
        jobs.append({"flavour": c["fl"], "impl": c["impl"], "eta": rwlib.nd(c["eta"]), "cue_vectors": c["cv"],
                     "outcome_vectors": c["ov"], "pol": c["pol"], "parts": parts, "n_jobs": c["n_jobs"],
                     "n_outcomes_per_job": c["n_outcomes_per_job"], "per": c["per"]})
    impl = run_jobs(sc, "wh_worker", jobs)
    mtabs, _, _ = whlib.model_tables(wc)
    for c, r, mt in zip(wc, impl, mtabs):
        ok = r.get("status") == "ok"
        if ok:
            it = whlib.impl_table(r["value"])
            _, _, worst = rwlib.compare_tables(mt, it, 1, missing_is_zero=c["impl"] == "dict_wh")
            ok = worst is None
        if not ok:
            rep.violation("reduced X-wh correspondence (WH learner = kernel model) broke",
                          {"correspondence": "X-wh (reduced, for C14)", "case": c08.describe(c), "impl": str(r)[:400]})
            break
    check_cases(ctx, rw_cases(rng, 8, 24, False)[:32], correspondence="X-rw (reduced, for C14)",
                theorems=["C14_* transfer to the learners only through C08_* and C01_*"])
    if len(rep.violations) > before and not witness:
        new = rep.violations[before:]
        rep.violations[before:] = [(p_, True, w_) for (p_, _, w_) in new]
    rep.lap("reduced_correspondences")
