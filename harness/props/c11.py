"""C11 - counting is exact and independent of the number of processes."""
import itertools

import core
import textlib as tl
from core import run_models, wr_list

RULE = ("X-count: (a) event files {0 bytes, header only, header without terminator, 1..40 rows without / with a "
        "frequency column (0..5, 10, 007, +2, -1), only zero frequencies, a share with malformed lines (1 or 4 fields, "
        "blank line, non-numeric frequency, CR inside)}: count.cues_outcomes for 4 values of n_jobs per file drawn "
        "from 1..32 (always one value above the number of lines and n_jobs=1) against model 1101 - n_events and both "
        "Counters as sorted item lists, ValueError exactly when the model raises - and between the n_jobs values; "
        "single jobs _job_cues_outcomes(start, step) against model 1104; (b) corpus files {0 bytes, blank lines only, "
        "punctuation only, 1..60 lines, LF / CR LF / CR, with and without final terminator}: words of ASCII and "
        "non-ASCII letters in mixed case (incl. characters whose lower() has two code points, astral letters; not "
        "U+03A3 whose lower() depends on context), the 15 stripped punctuation characters at the ends and inside "
        "words, other punctuation, separated by every kind of Unicode white space: count.words_symbols for 4 values "
        "of n_jobs x lower_case {False, True} against model 1102 and between the n_jobs values; the oracles is_space "
        "and lower are tables of str.isspace / str.lower over the characters of the file; (c) model 1103 (strided "
        "slices) against itertools.islice. A case is non-trivial when the file has >= 2 lines; distinct by content hash.")
TRUSTED = ["oracles: str.isspace and per-character str.lower of the CPython that runs the harness "
           "(tables over the characters of each corpus; U+03A3 excluded because its lower() is context dependent)",
           "multiprocessing.Pool.starmap returns the results of all jobs in order or re-raises a job's exception",
           "gzip and the UTF-8 codec; CPython text I/O (universal newlines)",
           "int() restricted to its ASCII fragment [+-]?[0-9]+"]

PUNCT = [ord(c) for c in '!?,.:;/"\'()^@*~']
OTHER_PUNCT = [ord(c) for c in "-[]_{}#&%+=<>|\\`$"] + [0xbf, 0x2014, 0x201c, 0x201d, 0x3002, 0xff01]
LETTERS = ([ord(c) for c in "abcxyzABCXYZ09"] +
           [0xc4, 0xe4, 0xdf, 0x130, 0x131, 0x1c4, 0x1c5, 0x1c6, 0x416, 0x436, 0x3a9, 0x3c9, 0x3c2, 0x3c3,
            0x13a0, 0xab70, 0x10400, 0x10428, 0x1e921, 0x1f600, 0x4e2d, 0x5d0, 0x1e9e, 0xfb01, 0x2126, 0x212a])
SPACES = [0x20, 0x20, 0x20, 0x09, 0x0b, 0x0c, 0x1c, 0x1d, 0x1e, 0x1f, 0x85, 0xa0, 0x1680, 0x2003, 0x2028, 0x2029,
          0x202f, 0x205f, 0x3000]
NOT_SPACES = [0x200b, 0xfeff, 0x00, 0x180e]      # look like white space, are not
SIGMA = 0x3a3


def word(rng):
    n = rng.choice([1, 2, 3, 4, rng.randint(1, 8)])
    w = []
    for _ in range(n):
        r = rng.random()
        if r < 0.7:
            w.append(rng.choice(LETTERS))
        elif r < 0.8:
            w.append(rng.choice(PUNCT))
        elif r < 0.88:
            w.append(rng.choice(OTHER_PUNCT))
        elif r < 0.92:
            w.append(rng.choice(NOT_SPACES))
        else:
            c = tl.rand_cp(rng)
            w.append(c if c != SIGMA else 0x3c3)
    if rng.random() < 0.4:
        w = [rng.choice(PUNCT) for _ in range(rng.randint(1, 2))] + w
    if rng.random() < 0.4:
        w = w + [rng.choice(PUNCT) for _ in range(rng.randint(1, 3))]
    if rng.random() < 0.06:
        w = [rng.choice(PUNCT) for _ in range(rng.randint(1, 4))]        # nothing left after strip
    return w


def corpus(rng):
    kind = rng.choice(["empty", "blank", "punct"] + ["text"] * 12)
    if kind == "empty":
        return [], kind, 0
    n_lines = rng.choice([1, 2, 3, 5, 8, rng.randint(1, 60)])
    vocab = [word(rng) for _ in range(rng.randint(2, 12))]
    eol = rng.choice([[tl.LF]] * 4 + [[tl.CR, tl.LF], [tl.CR]])
    out = []
    for i in range(n_lines):
        if kind == "blank" or (kind == "text" and rng.random() < 0.15):
            line = [rng.choice(SPACES) for _ in range(rng.randint(0, 3))]
        else:
            line = []
            if rng.random() < 0.3:
                line += [rng.choice(SPACES)]
            for j in range(rng.choice([1, 2, 3, 6, rng.randint(1, 15)])):
                if kind == "punct":
                    w = [rng.choice(PUNCT) for _ in range(rng.randint(1, 3))]
                else:
                    w = rng.choice(vocab) if rng.random() < 0.7 else word(rng)
                    if rng.random() < 0.3:                       # same word in another case
                        w = [ord(ch) for ch in "".join(map(chr, w)).swapcase() if ord(ch) != SIGMA]
                line += w + [rng.choice(SPACES) for _ in range(rng.choice([1, 1, 1, 2, 3]))]
            if rng.random() < 0.5:
                while line and chr(line[-1]).isspace():
                    line.pop()
        out += line
        if i < n_lines - 1 or rng.random() < 0.8:
            out += eol
    return out, kind, n_lines


def oracle_tables(text):
    chars = sorted(set(text) | {tl.LF, tl.CR})       # universal newlines turn CR into LF
    s = "".join(map(chr, text))
    if s.lower() != "".join(chr(c).lower() for c in text):
        return None                                  # lower() not context free on this text
    spaces = [c for c in chars if chr(c).isspace()]
    lower = [(c, [ord(x) for x in chr(c).lower()]) for c in chars if chr(c).lower() != chr(c)]
    return spaces, lower


def enc_words(text, n, lc, tables):
    spaces, lower = tables
    out = wr_list(spaces) + [len(lower)]
    for c, l in lower:
        out += [c] + wr_list(l)
    out += wr_list(text) + [n, 1 if lc else 0]
    return (1102, out)


def event_file(rng):
    kind = rng.choice(["empty", "header", "header-noeol", "nofreq", "nofreq", "freq", "freq", "freq", "zeros", "bad"])
    if kind == "empty":
        return [], kind, 0
    if kind == "header":
        return tl.HEADER + [tl.LF], kind, 0
    if kind == "header-noeol":
        return list(tl.HEADER), kind, 0
    n = rng.choice([1, 2, 3, 5, 8, 13, rng.randint(1, 40)])
    es = tl.clean_events(rng, n)
    lines = []
    for e in es:
        if kind == "nofreq":
            lines.append(tl.row_line(e))
        elif kind == "zeros":
            lines.append(tl.row_line(e, "0"))
        else:
            r = rng.random()
            f = rng.choice(tl.GOOD_FREQ) if r < 0.75 else None
            ln = tl.row_line(e, f)
            if kind == "bad" and rng.random() < 0.15:
                ln = rng.choice([tl.join(tl.US, e[0]), tl.row_line(e, "1") + [tl.TAB, 120], [],
                                 tl.row_line(e, rng.choice(tl.BAD_FREQ)), ln[:1] + [tl.CR] + ln[1:]])
            lines.append(ln)
    eol = (tl.LF,) if rng.random() < 0.85 else ([tl.CR, tl.LF],)
    return tl.file_text(lines, eol=eol, last_eol=rng.random() < 0.85), kind, len(lines)


def pick_n_jobs(rng, n_lines):
    ns = {1, rng.randint(2, 32), rng.randint(2, 8), min(32, n_lines + rng.randint(1, 5))}
    if n_lines >= 2:
        ns.add(min(32, rng.choice([n_lines, n_lines - 1])))
    ns = sorted(ns)
    while len(ns) > 4:
        ns.pop(rng.randrange(1, len(ns)))
    return ns


def run(ctx):
    rep, rng, sc = ctx.rep, ctx.rng, ctx.scratch
    thorough = ctx.thorough
    cross = []

    # ---------------- (c) the slice model against itertools.islice ------------------
    scases = []
    for _ in range(300):
        l = [rng.randrange(100) for _ in range(rng.choice([0, 1, 2, 5, 9, rng.randint(0, 40)]))]
        scases.append((l, rng.randint(1, 34)))
    souts = run_models([(1103, wr_list(l) + [n]) for l, n in scases])
    for (l, n), so in zip(scases, souts):
        r = tl.Reader(so)
        got = [r.list() for _ in range(r.int())]
        want = [list(itertools.islice(l, k, None, n)) for k in range(n)]
        if got != want:
            raise RuntimeError("model of islice contradicts itertools.islice on %r n=%d" % (l, n))
    rep.note("islice_model_cases", len(scases))

    # ---------------- (a) cues_outcomes ---------------------------------------------
    files = [event_file(rng) for _ in range(400 if thorough else 100)]
    jobs, meta = [], []
    for fi, (text, kind, n_lines) in enumerate(files):
        for n in pick_n_jobs(rng, n_lines):
            jobs.append({"kind": "count", "text": text, "n_jobs": n})
            meta.append((fi, "count", n, None))
        for _ in range(2):
            step = rng.randint(1, 6)
            start = rng.randint(0, step + 1)
            jobs.append({"kind": "count_job", "text": text, "start": start, "step": step})
            meta.append((fi, "job", start, step))
    impl = tl.run_jobs(sc, jobs)
    menc = []
    for j in jobs:
        if j["kind"] == "count":
            menc.append((1101, wr_list(j["text"]) + [j["n_jobs"]]))
        else:
            menc.append((1104, wr_list(j["text"]) + [j["start"], j["step"]]))
    mouts = run_models(menc)
    cross += [(m, o) for m, o in zip(menc, mouts) if len(m[1]) < 400][:60]
    per_file = {}
    stop = False
    for j, (fi, what, a, b), r, mo in zip(jobs, meta, impl, mouts):
        text, kind, n_lines = files[fi]
        desc = {"file_kind": kind, "lines": n_lines, "text": tl.show(text)[:600]}
        desc.update({"n_jobs": a} if what == "count" else {"start": a, "step": b})
        rep.case(desc, nontrivial=n_lines >= 2)
        m = tl.dec_counts(mo)
        if r.get("status") == "private_name_absent":
            rep.bump("single_slice_cases_skipped_private_job_function_absent")
            continue
        if what == "count":
            rep.hist("count_file_kind", kind)
            rep.hist("count_n_jobs", a)
            rep.hist("count_more_jobs_than_lines", a > n_lines)
            rep.hist("count_result", m[0])
        if m[0] == "err":
            ok = r["status"] == "raise" and r["type"] == "ValueError"
            got = "raise" if ok else None
        else:
            ok = (r["status"] == "ok" and r["value"]["n_events"] == m[1]
                  and tl.canon(r["value"]["cues"]) == tl.canon(m[2])
                  and tl.canon(r["value"]["outcomes"]) == tl.canon(m[3]))
            got = (r["value"]["n_events"], tl.canon(r["value"]["cues"]), tl.canon(r["value"]["outcomes"])) if ok else None
        if not ok:
            rep.violation("count.%s differs from the counting model" % (
                "cues_outcomes" if what == "count" else "_job_cues_outcomes"),
                {"correspondence": "X-count/events", "theorems": ["C11_cues_outcomes", "C11_strided_slices_partition"],
                 "text_codepoints": text[:800], "case": desc,
                 "model": tl.trim(m if m[0] == "err" else (m[1], tl.canon(m[2]), tl.canon(m[3]))), "impl": tl.trim(r)})
            stop = True
            break
        if what == "count":
            prev = per_file.setdefault(fi, (a, got))
            if prev[1] != got:
                rep.violation("count.cues_outcomes depends on n_jobs",
                              {"correspondence": "X-count/events", "theorems": ["C11_cues_outcomes_n_jobs_irrelevant"],
                               "text_codepoints": text[:800], "n_jobs": [prev[0], a], "results": tl.trim([prev[1], got])})
                stop = True
                break
    rep.lap("cues_outcomes")

    # ---------------- (b) words_symbols ---------------------------------------------
    if not stop:
        corpora = []
        while len(corpora) < (400 if thorough else 100):
            text, kind, n_lines = corpus(rng)
            tbl = oracle_tables(text)
            if tbl is None:
                rep.bump("corpora_rejected_context_dependent_lower")
                continue
            corpora.append((text, kind, n_lines, tbl))
        jobs, meta = [], []
        for fi, (text, kind, n_lines, tbl) in enumerate(corpora):
            for n in pick_n_jobs(rng, n_lines):
                for lc in (False, True):
                    jobs.append({"kind": "words", "text": text, "n_jobs": n, "lower_case": lc})
                    meta.append((fi, n, lc))
        impl = tl.run_jobs(sc, jobs)
        menc = [enc_words(corpora[fi][0], n, lc, corpora[fi][3]) for fi, n, lc in meta]
        mouts = run_models(menc)
        cross += [(m, o) for m, o in zip(menc, mouts) if len(m[1]) < 400][:60]
        per_file = {}
        for (fi, n, lc), r, mo in zip(meta, impl, mouts):
            text, kind, n_lines, tbl = corpora[fi]
            desc = {"corpus_kind": kind, "lines": n_lines, "n_jobs": n, "lower_case": lc, "text": tl.show(text)[:600]}
            rep.case(desc, nontrivial=n_lines >= 2)
            rep.hist("words_corpus_kind", kind)
            rep.hist("words_n_jobs", n)
            rep.hist("words_more_jobs_than_lines", n > n_lines)
            mw, ms = tl.dec_words(mo)
            want = (tl.canon(mw), tl.canon(ms))
            rep.hist("words_distinct_words", min(len(mw), 30))
            ok = (r["status"] == "ok" and tl.canon(r["value"]["words"]) == want[0]
                  and tl.canon(r["value"]["symbols"]) == want[1])
            if not ok:
                rep.violation("count.words_symbols differs from the counting model",
                              {"correspondence": "X-count/words", "theorems": ["C11_words_symbols"],
                               "text_codepoints": text[:800], "case": desc,
                               "model": tl.trim([[tl.show(k), v] for k, v in want[0]] + ["symbols"] +
                                                [[tl.show(k), v] for k, v in want[1]]),
                               "impl": tl.trim(r)})
                break
            got = (tl.canon(r["value"]["words"]), tl.canon(r["value"]["symbols"]))
            prev = per_file.setdefault((fi, lc), (n, got))
            if prev[1] != got:
                rep.violation("count.words_symbols depends on n_jobs",
                              {"correspondence": "X-count/words", "theorems": ["C11_words_symbols_n_jobs_irrelevant"],
                               "text_codepoints": text[:800], "n_jobs": [prev[0], n], "lower_case": lc})
                break
        rep.lap("words_symbols")

    n, badi = core.coq_crosscheck([m for m, _ in cross], [o for _, o in cross])
    rep.note("vm_compute_crosschecked_cases", n)
    if badi:
        rep.violation("extracted model and vm_compute disagree", {"cases": badi}, no_input=True)
