"""C18 - the parallel correlation equals Pearson's correlation."""
import math
from fractions import Fraction

import core
from core import run_models

RULE = ("X-corr: (a) the Cython kernel correlation_openmp.correlation called directly on small-integer matrices "
        "(2..40 dims, 0..30 outcomes, 0..60 events) with ARBITRARY dyadic means and non-zero dyadic deviations, so "
        "that numerator and denominator are exact in binary64 and the one division is correctly rounded: the "
        "returned double must be the double nearest to the model's exact quotient (equal as rationals when the "
        "quotient is representable, i.e. whenever (n-1) and the deviations are powers of two); C, Fortran, strided, "
        "transposed-strided and negative-stride layouts, strided statistics vectors, n_jobs 1..32, chunksize 1..50; "
        "(b) the wrapper correlation.correlation on integer matrices in [-3,3] with non-constant columns "
        "(2..40 dims, 1..30 outcomes, 1..60 events): Fraction(r)^2 vs the model's exact r^2 = cov^2/(ssx*ssy) "
        "within 1e-12 (|r| <= 1 is the scale), sign of r = sign of cov, and vs pyndl's _reference_correlation "
        "within 1e-10; (c) a constant or a NaN-holding column at every column position of both matrices (and both "
        "at once, and 1-dimensional input), allow_nan False/True: ValueError naming semantics/activations, or the "
        "pattern of non-finite cells (NaN exactly when all statistics are exact) with the finite cells as in (b). "
        "A case is non-trivial when it has at least one cell; distinct by content hash.")
TRUSTED = ["harness/omplib.py: regular expressions over the C code Cython generated for this build (names __pyx_v_*/__pyx_t_*, brace matching, private/firstprivate/lastprivate/reduction clauses)",
           "numpy mean/std(ddof=1)/isnan and array construction with a requested memory layout",
           "IEEE-754 binary64 arithmetic of the C compiler without value-changing optimisations "
           "(products/sums of the generated small dyadic numbers are exact, division is correctly rounded)",
           "libgomp scheduling of prange (every iteration exactly once)",
           "scipy.stats.pearsonr inside pyndl's _reference_correlation (cross-check only)"]

LAYOUTS = ["C", "F", "strided", "stridedF", "neg"]
TOL_R2 = Fraction(1, 10**12)
TOL_REF = Fraction(1, 10**10)


def nd(x):
    x = Fraction(x)
    return [x.numerator, x.denominator]


def run_sharded(sc, script, jobs, weight=None, n=None, timeout=900):
    """distribute jobs over worker processes (greedy by weight); keeps order"""
    n = min(n or core.NCPU, max(1, len(jobs)))
    weight = weight or (lambda j: 1)
    order = sorted(range(len(jobs)), key=lambda i: -weight(jobs[i]))
    bins = [[] for _ in range(n)]
    load = [0] * n
    for i in order:
        k = load.index(min(load))
        bins[k].append(i)
        load[k] += weight(jobs[i])
    bins = [b for b in bins if b]
    results = sc.run_workers(script, [{"jobs": [jobs[i] for i in b]} for b in bins], timeout=timeout)
    out = [None] * len(jobs)
    for b, (status, res) in zip(bins, results):
        if status != "ok":
            raise RuntimeError("%s failed: %s %r" % (script, status, res))
        for i, r in zip(b, res):
            out[i] = r
    return out


# ---------------------------------------------------------------------------
# comparison helpers (exact rationals only)
# ---------------------------------------------------------------------------
def cell_fraction(c):
    return None if isinstance(c, str) else Fraction(c[0], c[1])


def nearest_double(model, cell):
    """is the returned double the binary64 number nearest to the exact rational [model]?
    returns 'exact' | 'rounded' | None (mismatch)"""
    if isinstance(cell, str):
        return None
    x = cell[0] / cell[1]                      # the double itself (exact: it came from as_integer_ratio)
    fx = Fraction(cell[0], cell[1])
    if fx == model:
        return "exact"
    d = abs(fx - model)
    lo, hi = math.nextafter(x, -math.inf), math.nextafter(x, math.inf)
    if d < abs(Fraction(lo) - model) and d < abs(Fraction(hi) - model):
        # the model value is not representable (else fx == model): x is the unique nearest double
        return "rounded"
    return None


def lay_params(rng):
    return {"sr": rng.randint(1, 3), "sc": rng.randint(1, 4), "off_r": rng.randint(0, 2), "off_c": rng.randint(0, 3)}


# ---------------------------------------------------------------------------
# (a) kernel
# ---------------------------------------------------------------------------
def gen_kernel_case(rng, k, thorough):
    cls = ["pow2", "pow2", "general"][k % 3]
    if cls == "pow2":
        n = rng.choice([2, 3, 5, 9, 17, 33])
    else:
        n = rng.randint(2, 40)
    big = (k % 10 == 0)
    n_out = rng.randint(1, 30) if big else rng.choice([1, 2, 3, 5, 8, rng.randint(1, 12)])
    n_ev = rng.randint(1, 60) if big else rng.choice([1, 2, 3, 7, 13, rng.randint(1, 25)])
    if k % 37 == 5:
        n_ev = 0
    if k % 41 == 7:
        n_out = 0
    lim = rng.choice([1, 3, 8])
    sem = [[rng.randint(-lim, lim) for _ in range(n_out)] for _ in range(n)]
    act = [[rng.randint(-lim, lim) for _ in range(n_ev)] for _ in range(n)]

    def mean():
        return Fraction(rng.randint(-64, 64), 8)

    def std():
        if cls == "pow2":
            return Fraction(2) ** rng.randint(-3, 3) * rng.choice([1, 1, 1, -1])
        return Fraction(rng.choice([-1, 1]) * rng.randint(1, 48), 8)
    case = {"n": n, "n_out": n_out, "n_ev": n_ev, "cls": cls, "sem": sem, "act": act,
            "s_means": [mean() for _ in range(n_out)], "s_stds": [std() for _ in range(n_out)],
            "a_means": [mean() for _ in range(n_ev)], "a_stds": [std() for _ in range(n_ev)],
            "layout_s": LAYOUTS[k % 5], "layout_a": LAYOUTS[(k // 5 + k) % 5], "lay": lay_params(rng),
            "stats_strided": k % 4 == 1,
            "n_jobs": rng.randint(1, 32), "chunksize": rng.randint(1, 50)}
    if k % 29 == 3:
        case["n_jobs"] = case["chunksize"] = None          # the kernel's defaults (30, 10)
    return case


def enc_kernel(c):
    out = [c["n"], c["n_out"], c["n_ev"], c["chunksize"] or 10]
    for row in c["sem"]:
        for v in row:
            out += [v, 1]
    for row in c["act"]:
        for v in row:
            out += [v, 1]
    for key in ("s_means", "s_stds", "a_means", "a_stds"):
        for v in c[key]:
            out += nd(v)
    return (1801, out)


def kernel_job(c):
    j = {"kind": "kernel"}
    for key in ("n", "n_out", "n_ev", "layout_s", "layout_a", "lay", "stats_strided", "n_jobs", "chunksize"):
        j[key] = c[key]
    j["sem"] = [[float(v) for v in row] for row in c["sem"]]
    j["act"] = [[float(v) for v in row] for row in c["act"]]
    for key in ("s_means", "s_stds", "a_means", "a_stds"):
        j[key] = [float(v) for v in c[key]]
        assert all(Fraction(x) == v for x, v in zip(j[key], c[key]))
    return j


def describe(c, extra=None):
    d = {k: c[k] for k in ("n", "n_out", "n_ev", "layout_s", "layout_a", "lay") if k in c}
    for k in ("cls", "stats_strided", "n_jobs", "chunksize", "allow_nan", "kind"):
        if k in c:
            d[k] = c[k]
    if extra:
        d.update(extra)
    return d


def small_input(c):
    """the concrete input for a replay (stringified rationals)"""
    d = {"sem": c["sem"], "act": c["act"]}
    for key in ("s_means", "s_stds", "a_means", "a_stds"):
        if key in c:
            d[key] = [str(v) for v in c[key]]
    return d


def check_kernel(ctx, n_cases):
    rep, rng, sc = ctx.rep, ctx.rng, ctx.scratch
    cases = [gen_kernel_case(rng, k, ctx.thorough) for k in range(n_cases)]
    # hand-made edges: one thread per event, more threads than events, one chunk
    for (nj, cs) in [(32, 1), (1, 50), (32, 50), (2, 1)]:
        c = gen_kernel_case(rng, 1, ctx.thorough)
        c["n_jobs"], c["chunksize"] = nj, cs
        cases.append(c)
    mcases = [enc_kernel(c) for c in cases]
    jobs = [kernel_job(c) for c in cases]
    impl = run_sharded(sc, "corr_worker", jobs, weight=lambda j: 1 + j["n"] * j["n_out"] * j["n_ev"])
    mouts = run_models(mcases)
    for c, r, mo in zip(cases, impl, mouts):
        rep.case(describe(c, {"h": hash_small(c)}), nontrivial=c["n_out"] * c["n_ev"] > 0)
        rep.hist("kernel_layouts", c["layout_s"] + "/" + c["layout_a"])
        rep.hist("kernel_n_jobs", c["n_jobs"])
        rep.hist("kernel_chunksize", c["chunksize"])
        rep.hist("kernel_dims", c["n"])
        rep.hist("kernel_class", c["cls"])
        bad = None
        if mo[0] != 0 or len(mo) != 1 + 2 * c["n_out"] * c["n_ev"]:
            raise RuntimeError("model 1801 rejected a case: %r" % (mo[:5],))
        if r["status"] != "ok":
            bad = {"why": "kernel raised", "impl": r}
        elif r["value"]["shape"] != [c["n_out"], c["n_ev"]] or r["value"]["dtype"] != "float64":
            bad = {"why": "shape/dtype of the result", "impl": r["value"]["shape"]}
        elif not r["inputs_unchanged"]:
            bad = {"why": "the kernel changed its input matrices"}
        else:
            cells = r["value"]["cells"]
            p = 1
            for j in range(c["n_out"]):
                for i in range(c["n_ev"]):
                    m = Fraction(mo[p], mo[p + 1])
                    p += 2
                    how = nearest_double(m, cells[j][i])
                    if how is None:
                        bad = {"why": "cell differs from the exact quotient", "cell": [j, i], "model": str(m),
                               "model_float": float(m), "impl": cells[j][i],
                               "impl_float": None if isinstance(cells[j][i], str) else cells[j][i][0] / cells[j][i][1]}
                        break
                    rep.bump("kernel_cells_" + how)
                    if c["cls"] == "pow2" and how != "exact":
                        raise RuntimeError("harness: pow2 class must be exact")
                if bad:
                    break
        if bad:
            rep.violation("correlation_openmp.correlation differs from the kernel model: " + bad["why"],
                          {"correspondence": "X-corr/kernel", "theorems": ["C18_cell_is_column_function",
                           "C18_schedule_independent", "C18_kernel_chunked"],
                           "case": describe(c), "input": small_input(c), "mismatch": bad})
            return mcases, mouts
    rep.coverage["traces_validated_against_impl"] += len(cases)
    return mcases, mouts


def hash_small(c):
    import hashlib
    import json
    return hashlib.sha1(json.dumps([c["sem"], c["act"]], default=str).encode()).hexdigest()[:10]


# ---------------------------------------------------------------------------
# (b), (c) wrapper
# ---------------------------------------------------------------------------
def nonconst_column(rng, n, lim):
    while True:
        col = [rng.randint(-lim, lim) for _ in range(n)]
        if len(set(col)) > 1:
            return col


def gen_matrix(rng, n, cols, lim=3):
    cs = [nonconst_column(rng, n, lim) for _ in range(cols)]
    return [[cs[j][k] for j in range(cols)] for k in range(n)]


def enc_wrapper(c):
    out = [1 if c["allow_nan"] else 0, c["n"], c["n_out"], c["n_ev"]]
    for m in (c["sem"], c["act"]):
        for row in m:
            for v in row:
                if v is None:
                    out += [1, 0, 1]
                else:
                    fv = Fraction(v)
                    out += [0, fv.numerator, fv.denominator]
    return (1802, out)


def wrapper_job(c):
    j = {"kind": "wrapper", "reference": c.get("reference", False)}
    for key in ("n", "n_out", "n_ev", "layout_s", "layout_a", "lay", "allow_nan"):
        j[key] = c[key]
    j["sem"] = [[float("nan") if v is None else float(v) for v in row] for row in c["sem"]]
    j["act"] = [[float("nan") if v is None else float(v) for v in row] for row in c["act"]]
    if c.get("earlier"):
        j["earlier"] = [{k: ([[float("nan") if v is None else float(v) for v in row] for row in m] if m is not None else None)
                         for k, m in e.items()} for e in c["earlier"]]
    return j


def compare_wrapper(c, r, mo, rep):
    """returns None or a mismatch dict"""
    if mo[0] == -1:
        which = {1: "semantics", 2: "activations"}[mo[1]]
        if r["status"] == "raise" and r["type"] == "ValueError" and ("of %s are" % which) in r["msg"]:
            rep.hist("wrapper_result", "ValueError:" + which)
            return None
        return {"why": "model: ValueError about the %s" % which, "impl": r}
    if mo[0] != 0:
        raise RuntimeError("model 1802 rejected a case: %r" % (mo[:5],))
    if r["status"] != "ok":
        return {"why": "model: a matrix is returned", "impl": r}
    rep.hist("wrapper_result", "matrix")
    v = r["value"]["r"]
    if v["shape"] != [c["n_out"], c["n_ev"]] or v["dtype"] != "float64":
        return {"why": "shape/dtype", "impl": v["shape"]}
    if not r["inputs_unchanged"]:
        return {"why": "the wrapper changed its input matrices"}
    ref = r["value"].get("ref")
    exact_stats = c["n"] & (c["n"] - 1) == 0            # column sums / 2^k are exact
    p = 1
    for j in range(c["n_out"]):
        for i in range(c["n_ev"]):
            kind, num, den, sign = mo[p:p + 4]
            p += 4
            cell = v["cells"][j][i]
            if kind == 1:
                if not isinstance(cell, str):
                    return {"why": "model: not finite", "cell": [j, i], "impl": cell}
                if exact_stats and cell != "nan":
                    return {"why": "model: NaN (0/0 with exact statistics)", "cell": [j, i], "impl": cell}
                rep.bump("cells_not_finite")
                continue
            if isinstance(cell, str):
                return {"why": "model: finite r", "cell": [j, i], "impl": cell, "model_r2": "%d/%d" % (num, den)}
            r2 = Fraction(num, den)
            x = Fraction(cell[0], cell[1])
            if abs(x * x - r2) > TOL_R2:
                return {"why": "r^2 differs from cov^2/(ssx*ssy)", "cell": [j, i], "impl_r": float(x),
                        "model_r2": float(r2), "model_r2_exact": "%d/%d" % (num, den)}
            if sign == 0:
                if abs(x) > TOL_R2:
                    return {"why": "model: r = 0", "cell": [j, i], "impl_r": float(x)}
            elif (x > 0) != (sign > 0) or x == 0:
                return {"why": "sign of r differs from the sign of the covariance", "cell": [j, i],
                        "impl_r": float(x), "model_sign": sign}
            rep.bump("cells_r2_checked")
            if ref is not None:
                rc = ref["cells"][j][i]
                if isinstance(rc, str) or abs(Fraction(rc[0], rc[1]) - x) > TOL_REF:
                    return {"why": "differs from pyndl's _reference_correlation", "cell": [j, i],
                            "impl_r": float(x), "reference": rc}
                rep.bump("cells_vs_reference")
    return None


def check_wrapper(ctx, cases, label):
    rep, sc = ctx.rep, ctx.scratch
    mcases = [enc_wrapper(c) for c in cases]
    impl = run_sharded(sc, "corr_worker", [wrapper_job(c) for c in cases],
                       weight=lambda j: 1 + j["n"] * j["n_out"] * j["n_ev"] * (3 if j["reference"] else 1))
    mouts = run_models(mcases)
    for c, r, mo in zip(cases, impl, mouts):
        rep.case(describe(c, {"h": hash_small(c), "what": c.get("what")}), nontrivial=c["n_out"] * c["n_ev"] > 0)
        rep.hist(label + "_dims", c["n"])
        rep.hist(label + "_layouts", c["layout_s"] + "/" + c["layout_a"])
        bad = compare_wrapper(c, r, mo, rep)
        if bad:
            rep.violation("correlation.correlation differs from the wrapper model: " + bad["why"],
                          {"correspondence": "X-corr/" + label,
                           "theorems": ["C18_pearson", "C18_pearson_r2", "C18_degenerate", "C18_degenerate_which"],
                           "case": describe(c), "what": c.get("what"), "input": small_input(c), "mismatch": bad})
            return mcases, mouts
    rep.coverage["traces_validated_against_impl"] += len(cases)
    return mcases, mouts


def gen_wrapper_cases(rng, n_cases):
    cases = []
    for k in range(n_cases):
        big = k % 12 == 0
        n = rng.choice([2, 3, 3, 4, 5, 8, rng.randint(3, 40)]) if not big else rng.randint(20, 40)
        n_out = rng.randint(1, 30) if big else rng.choice([1, 2, 3, 5, rng.randint(1, 10)])
        n_ev = rng.randint(1, 60) if big else rng.choice([1, 2, 4, 9, rng.randint(1, 20)])
        cases.append({"n": n, "n_out": n_out, "n_ev": n_ev, "sem": gen_matrix(rng, n, n_out),
                      "act": gen_matrix(rng, n, n_ev), "allow_nan": k % 3 == 1, "reference": k % 2 == 0 or big,
                      "layout_s": LAYOUTS[k % 5], "layout_a": LAYOUTS[(k // 5 + 2 * k) % 5], "lay": lay_params(rng)})
    # Pearson's r does not depend on the magnitude of a column: small-magnitude (but non-constant) columns,
    # scaled by an exact power of two so that nothing else about the float computation changes
    for k, c in enumerate(cases):
        if k % 6 == 3 or k % 12 == 5:
            sc = Fraction(1, 2 ** rng.choice([30, 34, 40, 60, 100]))
            which = rng.choice(["sem", "act", "one_act_column", "one_sem_column"])
            c["what"] = "small magnitude (%s scaled by 2^-%d)" % (which, sc.denominator.bit_length() - 1)
            if which in ("sem", "act"):
                c[which] = [[v * sc for v in row] for row in c[which]]
            else:
                key = "act" if which == "one_act_column" else "sem"
                col = rng.randrange(len(c[key][0]))
                c[key] = [[(v * sc if j == col else v) for j, v in enumerate(row)] for row in c[key]]
    # history: the same array objects were correlated before with other contents and changed in place since (other
    # values, a column that was constant / NaN then and is not now, and the other way round through the degenerate cases)
    for k, c in enumerate(cases):
        if k % 4 == 2:
            e = {"sem": gen_matrix(rng, c["n"], c["n_out"]) if rng.random() < 0.7 else None,
                 "act": gen_matrix(rng, c["n"], c["n_ev"]) if rng.random() < 0.7 else None}
            if e["sem"] is not None and rng.random() < 0.4:
                col = rng.randrange(c["n_out"])
                for row in e["sem"]:
                    row[col] = 1
            if e["act"] is not None and rng.random() < 0.3:
                e["act"][rng.randrange(c["n"])][rng.randrange(c["n_ev"])] = None
            c["earlier"] = [e]
            c["what"] = (c.get("what") or "") + " [same arrays correlated before with other contents]"
    # a perfectly correlated, an anti-correlated and an uncorrelated pair
    cases.append({"n": 4, "n_out": 3, "n_ev": 2, "sem": [[0, 3, 1], [1, 2, -1], [2, 1, -1], [3, 0, 1]],
                  "act": [[0, 1], [2, 1], [4, 0], [6, 0]], "allow_nan": False, "reference": True,
                  "layout_s": "C", "layout_a": "F", "lay": lay_params(rng)})
    return cases


def gen_degenerate_cases(rng, n_bases):
    cases = []
    for b in range(n_bases):
        n = [4, 3, 8, 5, 2, 6][b % 6]
        n_out, n_ev = rng.randint(1, 5), rng.randint(1, 7)
        base_s, base_a = gen_matrix(rng, n, n_out), gen_matrix(rng, n, n_ev)

        def variant(which, col, how):
            s = [list(r) for r in base_s]
            a = [list(r) for r in base_a]
            for (w, cidx, h) in zip(which, col, how):
                m = s if w == "s" else a
                if h == "const":
                    cval = rng.randint(-3, 3)
                    for k in range(n):
                        m[k][cidx] = cval
                else:
                    m[rng.randrange(n)][cidx] = None
            return s, a
        specs = []
        for j in range(n_out):
            for how in ("const", "nan"):
                specs.append((["s"], [j], [how]))
        for i in range(n_ev):
            for how in ("const", "nan"):
                specs.append((["a"], [i], [how]))
        specs.append((["s", "a"], [rng.randrange(n_out), rng.randrange(n_ev)], ["const", "nan"]))
        specs.append((["s", "a"], [rng.randrange(n_out), rng.randrange(n_ev)], ["nan", "const"]))
        specs.append(([], [], []))
        for which, col, how in specs:
            for allow in (False, True):
                s, a = variant(which, col, how)
                cases.append({"n": n, "n_out": n_out, "n_ev": n_ev, "sem": s, "act": a, "allow_nan": allow,
                              "reference": False, "what": list(zip(which, col, how)),
                              "layout_s": rng.choice(LAYOUTS), "layout_a": rng.choice(LAYOUTS),
                              "lay": lay_params(rng)})
    # one vector dimension: every deviation is 0/0
    for allow in (False, True):
        cases.append({"n": 1, "n_out": 2, "n_ev": 3, "sem": [[1, 2]], "act": [[3, 1, 2]], "allow_nan": allow,
                      "reference": False, "what": "one dimension", "layout_s": "C", "layout_a": "C",
                      "lay": lay_params(rng)})
    return cases


def run(ctx):
    rep, rng = ctx.rep, ctx.rng
    thorough = ctx.thorough
    # what the OpenMP loop of the correlation kernel of this build shares between its threads
    core.check_omp_sharing(ctx, "correlation_openmp", None, ["C18_schedule_independent", "C18_cell_local"])
    mk, ok_ = check_kernel(ctx, 4000 if thorough else 480)
    rep.lap("kernel")
    mw, ow = check_wrapper(ctx, gen_wrapper_cases(rng, 2500 if thorough else 260), "wrapper")
    rep.lap("wrapper")
    md, od = check_wrapper(ctx, gen_degenerate_cases(rng, 60 if thorough else 10), "degenerate")
    rep.lap("degenerate")
    # extraction vs the Coq VM on a slice of the small cases
    pairs = [(c, o) for c, o in list(zip(mk, ok_))[:200] + list(zip(md, od))[:60] + list(zip(mw, ow))[:40]
             if len(c[1]) + len(o) < 700]
    n, badi = core.coq_crosscheck([p[0] for p in pairs], [p[1] for p in pairs], max_cases=80)
    rep.note("vm_compute_crosschecked_cases", n)
    if badi:
        rep.violation("extracted model and vm_compute disagree", {"cases": badi}, no_input=True)
    rep.lap("vm_crosscheck")
