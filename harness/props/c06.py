"""C06 - binary event chunks round-trip and are read identically by every reader."""
import itertools
import struct
from fractions import Fraction

import core
import rwlib
from core import wr_list, wr_events, run_models, Reader

RULE = ("X-binfmt: (a) write_events vs model 101/104 byte for byte (bounded-exhaustive lists over 3 ids, "
        "random lists with up to 3000 ids per event, start/stop windows, the three duplicate policies); "
        "(b) read_binary_file vs model 102 on written and on crafted files; (c) both binary-to-binary entry "
        "points consume chunk files (incl. >1024 ids per event) as the kernel model 202 predicts, exact "
        "rationals; (d) a chunk with bad magic/version at every position of lists of 1..4 chunks against all "
        "five entry points vs model 105; (e) a 70000x70000 weight matrix (sparse memmap, > 2^32 cells) trained on ids near the corners. A case is non-trivial when it "
        "has at least one event; distinct by content hash.")
TRUSTED = ["the C compiler/libc (fread, malloc) and numpy array passing for the kernel calls"]

MAGIC, VERSION = 14159265, 2263


def py_encode(es, n=None, magic=MAGIC, version=VERSION):
    out = struct.pack("<III", magic, version, len(es) if n is None else n)
    for cs, os_ in es:
        out += struct.pack("<I%dI" % len(cs), len(cs), *cs)
        out += struct.pack("<I%dI" % len(os_), len(os_), *os_)
    return list(out)


def small_event_lists():
    ids = [0, 1, 2]
    cue_lists = [[]] + [[a] for a in ids] + [[a, b] for a in ids for b in ids]
    out_lists = [[]] + [[a] for a in ids]
    events = [[c, o] for c in cue_lists for o in out_lists]
    yield []
    for e in events:
        yield [e]
    for e1 in events:
        for e2 in events:
            yield [e1, e2]


def random_events(rng, n_events, max_ids, id_range):
    es = []
    for _ in range(n_events):
        nc = rng.choice([0, 1, 2, 3, rng.randint(0, max_ids)])
        no = rng.choice([0, 0, 1, 2, rng.randint(0, max(1, max_ids // 4))])
        es.append([[rng.randrange(id_range) for _ in range(nc)], [rng.randrange(id_range) for _ in range(no)]])
    return es


def run(ctx):
    rep, rng, sc = ctx.rep, ctx.rng, ctx.scratch
    thorough = ctx.thorough

    # ---------------- (a) writer -------------------------------------------------
    cases = []
    small = list(small_event_lists())
    if not thorough:
        small = small[:60] + rng.sample(small[60:], 500)
    for es in small:
        cases.append({"events": es, "start": 0, "stop": len(es), "pol": 2})
    for _ in range(1500 if thorough else 60):
        es = random_events(rng, rng.randint(1, 6), rng.choice([5, 40, 1500, 3000]), rng.choice([4, 100, 2**32]))
        cases.append({"events": es, "start": 0, "stop": len(es), "pol": 2})
    # windows and policies
    for _ in range(4000 if thorough else 200):
        es = random_events(rng, rng.randint(0, 9), 4, 4)
        start = rng.randint(0, 6)
        stop = start + rng.randint(1, 6)
        cases.append({"events": es, "start": start, "stop": stop, "pol": rng.choice([0, 1, 2])})
    cases.append({"events": [[[1], [2]]], "start": 0, "stop": 4294967295, "pol": 0})
    jobs = [dict(c, kind="write") for c in cases]
    shards = [jobs[i::core.NCPU] for i in range(core.NCPU)]
    idx = [list(range(len(jobs)))[i::core.NCPU] for i in range(core.NCPU)]
    results = sc.run_workers("binfmt_worker", [{"jobs": s} for s in shards if s])
    impl = [None] * len(jobs)
    for ids, (status, res) in zip([i for i in idx if i], results):
        if status != "ok":
            raise RuntimeError("binfmt worker failed: %r" % (res,))
        for i, r in zip(ids, res):
            impl[i] = r
    mcases = [(104, wr_events(c["events"]) + [c["start"], c["stop"], c["pol"]]) for c in cases]
    mouts = run_models(mcases)
    n_enc = 0
    for c, r, mo in zip(cases, impl, mouts):
        rep.case(c, nontrivial=len(c["events"]) > 0)
        rep.hist("write_result", "raise" if r["status"] == "raise" else r["value"]["tag"])
        bad = None
        if mo[0] == -1:
            if not (r["status"] == "raise" and r["type"] == "ValueError"):
                bad = "model: ValueError (duplicates under None)"
        elif r["status"] == "raise":
            bad = "implementation raised %s" % r["type"]
        else:
            v = r["value"]
            tag = {0: "return", 1: "stop"}[mo[0]]
            mfile = mo[2:] if len(mo) > 2 else None
            if v["tag"] != tag or v["n"] != mo[1]:
                bad = "result kind / number of events differs"
            elif c["pol"] == 1:
                # set order is unspecified: compare per event as sorted id lists
                if (v["file"] is None) != (mfile is None):
                    bad = "file presence differs"
                elif mfile is not None:
                    try:
                        a = decode(v["file"])
                    except Exception as exc:  # noqa
                        a = "undecodable: %s" % exc
                    b = decode(mfile)
                    if a != b and not (isinstance(a, list) and len(a) == len(b) and all(
                            sorted(x[0]) == sorted(y[0]) and sorted(x[1]) == sorted(y[1]) for x, y in zip(a, b))):
                        bad = "events written under remove_duplicates=True differ as sets"
            elif v["file"] != mfile:
                bad = "bytes differ"
            n_enc += 1
        if bad:
            rep.violation("write_events differs from the format model: " + bad,
                          {"correspondence": "X-binfmt/write", "theorems": ["C06_decode_encode"],
                           "case": c, "model": mo[:200], "impl": trim(r)})
            break
    rep.note("writer_cases", len(cases))

    rep.lap('writer')
    # ---------------- (b) Python reader ------------------------------------------
    rcases = []
    for c in rng.sample(cases, min(len(cases), 300 if thorough else 120)):
        rcases.append(py_encode(c["events"]))
    good = py_encode([[[1, 2], [0]], [[3], []]])
    rcases += [py_encode([[[1], [2]]], magic=MAGIC + 1), py_encode([[[1], [2]]], version=215),
               py_encode([[[1], [2]]], version=VERSION + 1), good[:8], good[:3], [], good[:-3], good + [1, 2, 3],
               py_encode([[[1], [2]]], n=3)]
    for _ in range(40):
        b = list(good)
        b[rng.randrange(len(b))] = rng.randrange(256)
        if int.from_bytes(bytes(b[8:12]), "little") > 50:
            continue
        # keep counts small: a corrupted count field would make both sides loop for long
        if any(int.from_bytes(bytes(b[i:i + 4]), "little") > 10**4 for i in range(8, len(b) - 3)):
            continue
        rcases.append(b)
    status, res = sc.run_worker("binfmt_worker", {"jobs": [{"kind": "read", "bytes": b} for b in rcases]})
    if status != "ok":
        raise RuntimeError("binfmt worker failed: %r" % (res,))
    mouts = run_models([(102, wr_list(b)) for b in rcases])
    for b, r, mo in zip(rcases, res, mouts):
        rep.case({"read": b[:64], "len": len(b)}, nontrivial=len(b) > 12)
        if mo[0] == -1:
            ok = r["status"] == "raise" and r["type"] == "ValueError"
        else:
            ok = r["status"] == "ok" and r["value"] == Reader(mo[1:]).events()
        rep.hist("read_result", "raise" if r["status"] == "raise" else "ok")
        if not ok:
            rep.violation("read_binary_file differs from the format model",
                          {"correspondence": "X-binfmt/read", "theorems": ["C06_decode_encode"],
                           "bytes": b, "model": mo[:200], "impl": trim(r)})
            break

    rep.lap('reader')
    # ---------------- (b') the numbers and the word helpers in the source text --------------
    # tools/py2coq.py reads MAGIC_NUMBER / CURRENT_VERSION / to_bytes / to_integer from preprocess.py, the kernels'
    # copies of the constants from ndl_parallel.pyx and the error codes from error_codes.pxd of the tree under test; the
    # theorems of coq/src/SrcFmtProps.v (writer, reader and header decision over the SOURCE's numbers are the model and
    # round-trip) are re-checked against them, and the generated definitions are run by the VM on words and byte strings
    # the running module converted
    words = [0, 1, 255, 256, 65535, 65536, 16777216, 14159265, 2263, 2**32 - 1] + [rng.randrange(2**32) for _ in range(20)]
    strings = [[], [7], [1, 2], [1, 2, 3], [0, 0, 0, 1], [255] * 4, [1, 2, 3, 4, 5]] + \
              [[rng.randrange(256) for _ in range(4)] for _ in range(20)]
    status, cres = sc.run_worker("binfmt_worker", {"jobs": [{"kind": "consts", "words": words, "strings": strings}]})
    if status != "ok":
        raise RuntimeError("binfmt worker failed: %r" % (cres,))
    # (the definitions of SrcFmtProofs.v repeated, so that the cases still run when a proof no longer compiles)
    cases_v = ("From PV Require Import Bytes.\n"
               "Fixpoint le_bytes (w : nat) (n : Z) : list Z := match w with O => [] | S w' => n mod 256 :: le_bytes w' (n / 256) end.\n"
               "Definition src_to_bytes (n : Z) : list Z := let l := le_bytes (Z.to_nat fmt_to_bytes_width_src) n in "
               "if fmt_to_bytes_little_src then l else rev l.\n"
               "Definition src_to_integer (bs : list Z) : Z := to_integer (if fmt_to_integer_little_src then bs else rev bs).\n"
               "Eval vm_compute in ([[fmt_py_MAGIC_NUMBER_src; fmt_py_CURRENT_VERSION_src; "
               "fmt_py_CURRENT_VERSION_WITH_FREQ_src]] ++ map src_to_bytes [%s] ++ map (fun b => [src_to_integer b]) [%s]).\n"
               % ("; ".join(map(str, words)), "; ".join("[%s]" % "; ".join(map(str, b)) for b in strings)))
    sd = core.source_derived(sc, "Fmt", cases_v)
    core.fold_source_derived(ctx, sd, "the constants and word helpers of the binary format")
    if sd["translated"] and sd["cases_output"] is not None and cres[0]["status"] == "ok":
        v = cres[0]["value"]
        want = [[v["magic"], v["version"], v["with_freq"]]] + v["to_bytes"] + [[x] for x in v["to_integer"]]
        got = core.parse_coq_list(sd["cases_output"])
        agree = got == want
        rep.note("source_constants_run_by_the_vm", {"words": len(words), "byte_strings": len(strings),
                                                     "agrees_with_the_running_module": agree})
        if not agree:
            core.log("NOTE: the format constants / word helpers read from the source text and the running module disagree")
            for t in ctx.props["theorems"]:
                if t.get("source_derived"):
                    t["assumptions"] = None
    # the structure of the readers in the source text (how many kernels open a chunk / check the header canonically, the
    # widths of every fread / read, the initial buffer capacities): a lenient group - harmless rewrites change it
    sd_shape = core.source_derived(sc, "FmtShape")
    core.fold_source_derived(ctx, sd_shape, "the structure of the chunk readers")
    rep.note("source_reader_structure", sd_shape.get("constants"))
    rep.lap('format_source')
    # ---------------- (c) kernels consume the chunks -----------------------------
    kcases = []
    for k in range(160 if thorough else 12):
        # which id buffer has to be re-allocated: cues, outcomes, or both in one chunk (in both orders)
        big = {0: "cues", 1: "outs", 2: "both"}.get(k % 4)
        n_cues = rng.choice([1100, 1500, 3000]) if big in ("cues", "both") else rng.randint(2, 9)
        n_outs = rng.choice([1100, 1300, 2500]) if big in ("outs", "both") else rng.randint(1, 7)
        files = []
        for fi in range(rng.randint(1, 3)):
            es = []
            for ei in range(rng.randint(2, 3) if big else rng.randint(1, 4)):
                big_c = big == "cues" or (big == "both" and (ei + fi + k // 4) % 2 == 0)
                big_o = big == "outs" or (big == "both" and (ei + fi + k // 4) % 2 == 1)
                ncs = rng.randint(1025, n_cues) if big_c else rng.randint(1, 5)
                cs = rng.sample(range(n_cues), min(ncs, n_cues)) if rng.random() < 0.7 else \
                    [rng.randrange(n_cues) for _ in range(ncs)]
                nos = rng.randint(1025, n_outs) if big_o else rng.randint(0, min(3, n_outs))
                os_ = rng.sample(range(n_outs), nos)
                es.append([cs, os_])
            files.append(es)
        p = rwlib.gen_params(rng)
        if big:
            p["alpha"], p["beta1"], p["beta2"] = Fraction(1, 256), Fraction(1, 16), Fraction(1, 32)
        allo = list(range(n_outs))
        rng.shuffle(allo)
        if big:
            allo = allo[:8]            # the kernel parses every id but trains only these rows (keeps the model cheap)
        rows = sorted(set(rng.sample(range(n_outs), min(n_outs, 8)) + allo[:6]))
        cols = sorted(set(rng.sample(range(n_cues), min(n_cues, 12)) + [files[0][0][0][0]]))
        cells = [(rng.randrange(n_outs), rng.randrange(n_cues), Fraction(rng.randint(-8, 8), 4)) for _ in range(5)]
        cells = list({(o, c): (o, c, v) for o, c, v in cells}.values())
        kcases.append({"p": p, "n_cues": n_cues, "n_outs": n_outs, "files": files, "allo": allo,
                       "rows": rows, "cols": cols, "cells": cells,
                       "entry": rng.choice(["threading", "openmp"]), "chunksize": rng.randint(1, 4),
                       "n_jobs": rng.randint(1, 4)})
    jobs, menc = [], []
    for kc in kcases:
        fb = [py_encode(es) for es in kc["files"]]
        jobs.append({"kind": "kernel", "files": fb, "shape": [kc["n_outs"], kc["n_cues"]],
                     "cells": [[o, c, rwlib.nd(v)] for o, c, v in kc["cells"]], "all_outcomes": kc["allo"],
                     "alpha": rwlib.nd(kc["p"]["alpha"]), "beta1": rwlib.nd(kc["p"]["beta1"]),
                     "beta2": rwlib.nd(kc["p"]["beta2"]), "lam": rwlib.nd(kc["p"]["lam"]),
                     "entry": kc["entry"], "chunksize": kc["chunksize"], "n_jobs": kc["n_jobs"],
                     "rows": kc["rows"], "cols": kc["cols"]})
        menc.append(rwlib.enc_kernel_case(kc["p"], kc["n_cues"], kc["allo"], 0, len(kc["allo"]), fb,
                                          kc["cells"], kc["rows"], kc["cols"]))
    results = sc.run_workers("rw_worker", [{"jobs": [j]} for j in jobs], timeout=900)
    mouts = run_models(menc)
    for kc, (status, res), mo in zip(kcases, results, mouts):
        desc = {k: kc[k] for k in ("n_cues", "n_outs", "entry", "chunksize", "n_jobs")}
        desc["ids_per_event"] = [[len(e[0]), len(e[1])] for f in kc["files"] for e in f]
        rep.case(desc)
        rep.hist("kernel_entry", kc["entry"])
        if status != "ok" or res[0]["status"] != "ok" or mo[0] != 0:
            rep.violation("kernel call on well-formed chunks failed",
                          {"correspondence": "X-binfmt/kernel", "case": desc, "impl": trim(res), "model": mo[:5]})
            break
        mt = rwlib.dec_matrix(mo, kc["rows"], kc["cols"])
        it = {(o, c): rwlib.fr(res[0]["value"][i][j]) for i, o in enumerate(kc["rows"])
              for j, c in enumerate(kc["cols"])}
        ne, nr, worst = rwlib.compare_tables(mt, it, kc["p"]["lam"])
        rep.bump("cells_exact", ne)
        rep.bump("cells_rounded", nr)
        if worst:
            rep.violation("kernel consumed a chunk differently from the model",
                          {"correspondence": "X-binfmt/kernel", "theorems": ["C06_kernel_reads_same"],
                           "case": desc, "files": kc["files"] if kc["n_cues"] < 20 else "large",
                           "mismatch": worst})
            break
    rep.coverage["traces_validated_against_impl"] += len(kcases)

    rep.lap('kernels')

    # ---------------- (c2) the three Widrow-Hoff kernels consume hand-made chunks -----------------
    # every compiled kernel, not only the Rescorla-Wagner one: events without cues, events without outcomes,
    # repeated ids, an empty-cue event directly after an ordinary one, more than 1024 ids in an event
    wcases = []
    for k in range(120 if thorough else 24):
        fl = ["b2r", "r2b", "r2r"][k % 3]
        big = (k % 12) in (9, 10, 11)
        n_cue = rng.choice([1100, 1300]) if big else rng.randint(2, 6)
        n_out = rng.choice([1100, 1200]) if big else rng.randint(1, 5)
        cd, od = rng.randint(1, 4), rng.randint(1, 4)
        if big:
            cd, od = rng.randint(1, 2), rng.randint(1, 2)
        files = []
        for fi in range(rng.randint(1, 3)):
            es = []
            for ei in range(rng.randint(2, 6)):
                kind = rng.choice(["plain", "plain", "no_cues", "no_outs", "repeat"])
                if ei == 0 and fi == 0:
                    kind = "plain"
                ncs = 0 if kind == "no_cues" else rng.randint(1, 4)
                nos = 0 if kind == "no_outs" else rng.randint(1, 3)
                if big and ei == 1:
                    ncs, nos = (rng.randint(1025, n_cue), rng.randint(1, 3)) if (k + fi) % 2 else \
                               (rng.randint(1, 3), rng.randint(1025, n_out))
                    cs = rng.sample(range(n_cue), ncs)
                    os_ = rng.sample(range(n_out), nos)
                else:
                    cs = [rng.randrange(n_cue) for _ in range(ncs)]
                    os_ = [rng.randrange(n_out) for _ in range(nos)]
                    if kind != "repeat":
                        cs, os_ = list(dict.fromkeys(cs)), list(dict.fromkeys(os_))
                es.append([cs, os_])
            files.append(es)
        small = [Fraction(v, 2) for v in range(-4, 5)]
        if big:      # sparse tables keep the exact model cheap: most rows are zero vectors
            cv = [[rng.choice(small) if rng.random() < 0.01 or i < 4 else Fraction(0) for _ in range(cd)] for i in range(n_cue)]
            ov = [[rng.choice(small) if rng.random() < 0.01 or i < 4 else Fraction(0) for _ in range(od)] for i in range(n_out)]
        else:
            cv = [[rng.choice(small) for _ in range(cd)] for _ in range(n_cue)]
            ov = [[rng.choice(small) for _ in range(od)] for _ in range(n_out)]
        eta = rng.choice([Fraction(1, 8), Fraction(1, 16), Fraction(1, 32)]) if not big else Fraction(1, 4096)
        b1, b2, lam = rng.choice([Fraction(1, 8), Fraction(1, 4)]), rng.choice([Fraction(1, 16), Fraction(1, 32)]), \
            rng.choice([Fraction(1), Fraction(3)])
        if big:
            b1, b2 = Fraction(1, 4096), Fraction(1, 8192)
        shape = {"b2r": [od, n_cue], "r2b": [n_out, cd], "r2r": [od, cd]}[fl]
        rows = list(range(shape[0])) if shape[0] <= 8 else sorted(rng.sample(range(shape[0]), 8))
        cols = list(range(shape[1])) if shape[1] <= 8 else sorted(rng.sample(range(shape[1]), 8))
        if big and fl == "b2r":
            cols = sorted(set(cols[:4] + [c for f in files for e in f for c in e[0][:2]]))[:12]
        if big and fl == "r2b":
            rows = sorted(set(rows[:4] + [o for f in files for e in f for o in e[1][:2]]))[:12]
        wcases.append({"fl": fl, "n_cue": n_cue, "n_out": n_out, "cd": cd, "od": od, "files": files, "cv": cv, "ov": ov,
                       "eta": eta, "b1": b1, "b2": b2, "lam": lam, "shape": shape, "rows": rows, "cols": cols,
                       "chunksize": rng.randint(1, 4), "n_jobs": rng.randint(1, 4)})
    wjobs, wenc = [], []
    for wc in wcases:
        fb = [py_encode(es) for es in wc["files"]]
        wjobs.append({"kind": "wh_kernel", "flavour": wc["fl"], "files": fb, "shape": wc["shape"],
                      "cv": [[rwlib.nd(x) for x in r] for r in wc["cv"]], "ov": [[rwlib.nd(x) for x in r] for r in wc["ov"]],
                      "eta": rwlib.nd(wc["eta"]), "b1": rwlib.nd(wc["b1"]), "b2": rwlib.nd(wc["b2"]), "lam": rwlib.nd(wc["lam"]),
                      "chunksize": wc["chunksize"], "n_jobs": wc["n_jobs"]})
        fl = wc["fl"]
        n_cdims = 0 if fl == "b2r" else wc["cd"]
        n_odims = 0 if fl == "r2b" else wc["od"]
        enc = [{"b2r": 0, "r2b": 1, "r2r": 2}[fl]] + rwlib.nd(wc["eta"]) + rwlib.nd(wc["b1"]) + rwlib.nd(wc["b2"]) + \
            rwlib.nd(wc["lam"]) + [wc["shape"][1], n_cdims, n_odims, wc["shape"][0]]
        for tbl, use in ((wc["cv"], fl != "b2r"), (wc["ov"], fl != "r2b")):
            cells = []
            if use:
                for i, row in enumerate(tbl):
                    for kk, v in enumerate(row):
                        if v != 0:
                            cells += [i, kk] + rwlib.nd(v)
            enc += [len(cells) // 4] + cells
        enc += [len(fb)]
        for f in fb:
            enc += wr_list(f)
        enc += [0] + wr_list(wc["rows"]) + wr_list(wc["cols"])
        wenc.append((801, enc))
    wres = sc.run_workers("binfmt_worker", [{"jobs": [j]} for j in wjobs], timeout=900)
    wmo = run_models(wenc)
    for wc, (status, res), mo in zip(wcases, wres, wmo):
        desc = {kk: wc[kk] for kk in ("fl", "n_cue", "n_out", "cd", "od", "chunksize", "n_jobs")}
        desc["ids_per_event"] = [[len(e[0]), len(e[1])] for f in wc["files"] for e in f]
        rep.case(desc)
        rep.hist("wh_kernel_flavour", wc["fl"])
        rep.hist("wh_kernel_events_without_cues", sum(1 for f in wc["files"] for e in f if not e[0]))
        if status != "ok" or res[0]["status"] != "ok" or mo[0] != 0:
            rep.violation("Widrow-Hoff kernel call on well-formed chunks failed",
                          {"correspondence": "X-binfmt/wh-kernel", "case": desc, "impl": trim(res), "model": mo[:5]})
            break
        mt = rwlib.dec_matrix(mo, wc["rows"], wc["cols"])
        W = res[0]["value"]
        it = {(o, c): rwlib.fr(W[o][c]) for o in wc["rows"] for c in wc["cols"]}
        ne, nr, worst = rwlib.compare_tables(mt, it, wc["lam"])
        rep.bump("cells_exact", ne)
        rep.bump("cells_rounded", nr)
        if worst:
            rep.violation("a Widrow-Hoff kernel (%s) consumed a chunk differently from the model" % wc["fl"],
                          {"correspondence": "X-binfmt/wh-kernel", "theorems": ["C06_kernel_reads_same"],
                           "case": desc, "files": wc["files"] if wc["n_cue"] < 20 else "large",
                           "tables": {"cv": [[str(x) for x in r] for r in wc["cv"]][:8], "ov": [[str(x) for x in r] for r in wc["ov"]][:8]},
                           "mismatch": worst})
            break
    rep.coverage["traces_validated_against_impl"] += len(wcases)
    rep.lap('wh_kernels')
    # ---------------- (d) bad header at every position ---------------------------
    goodc = py_encode([[[0, 1], [0]], [[1], [1]]])
    bads = {"magic": py_encode([[[0], [0]]], magic=MAGIC + 7), "version": py_encode([[[0], [0]]], version=215),
            "version+1": py_encode([[[0], [0]]], version=VERSION + 1),
            # both words wrong at once (after seeded change C06-L: error codes combined into another code)
            "both": py_encode([[[0], [0]]], magic=MAGIC + 7, version=215),
            "zero": [0] * 12,
            "swapped": py_encode([[[0], [0]]], magic=VERSION, version=MAGIC),
            "both-random": py_encode([[[0], [0]]], magic=rng.choice([1, 2, 3, 7, MAGIC ^ 1, rng.randrange(2**32)]),
                                     version=rng.choice([0, 1, 2, 3, 7, 2048, VERSION ^ 1, rng.randrange(2**32)]))}
    ejobs, edesc = [], []
    entries = ["bb_threading", "bb_openmp", "b2r_openmp", "r2b_openmp", "r2r_openmp"]
    for n in range(1, 5):
        for mask in itertools.product([0, 1], repeat=n):
            for badkind in (["magic", "version", "version+1", "both", "zero", "swapped", "both-random"]
                            if any(mask) else ["-"]):
                if any(mask) and not thorough and badkind in ("version+1", "zero", "swapped", "both-random") and n > 2:
                    continue
                files = [bads[badkind] if m else goodc for m in mask]
                for ent in entries:
                    ejobs.append({"kind": "entry", "files": files, "entry": ent, "n_out": 2, "n_cue": 2,
                                  "chunksize": rng.randint(1, 3), "n_jobs": rng.randint(1, 3)})
                    edesc.append({"mask": list(mask), "bad": badkind, "entry": ent})
    shards = [ejobs[i::8] for i in range(8)]
    sidx = [list(range(len(ejobs)))[i::8] for i in range(8)]
    results = sc.run_workers("binfmt_worker", [{"jobs": s} for s in shards])
    eres = [None] * len(ejobs)
    for ids, (status, res) in zip(sidx, results):
        if status != "ok":
            raise RuntimeError("entry worker failed %r" % (res,))
        for i, r in zip(ids, res):
            eres[i] = r
    mouts = run_models([(105, [len(j["files"])] + sum((wr_list(f) for f in j["files"]), [])) for j in ejobs])
    for j, d, r, mo in zip(ejobs, edesc, eres, mouts):
        rep.case(d, nontrivial=any(d["mask"]))
        expect_err = mo[0] in (1, 2)
        got_err = r["status"] == "raise" and r["type"] in ("OSError", "IOError")
        rep.hist("entry_result", "%s:%s" % (d["entry"], "raise" if r["status"] == "raise" else "ok"))
        if expect_err != got_err or (r["status"] == "raise" and not got_err):
            rep.violation("entry point %s %s a chunk list %s whose model error code is %d" % (
                d["entry"], "accepted" if not got_err else "rejected", d, mo[0]),
                {"correspondence": "X-binfmt/entry", "theorems": ["C06_bad_header_rejected"],
                 "case": d, "model_code": mo[0], "impl": trim(r)})
            break
    rep.coverage["traces_validated_against_impl"] += len(ejobs)

    rep.lap('entries')
    # ---------------- (e) thorough: matrix with more than 2^32 cells --------------
    big_matrix(ctx)
    rep.lap('big_matrix')

    # extraction vs Coq VM cross-check on a slice
    n, badi = core.coq_crosscheck(mcases[:150], run_models(mcases[:150]))
    rep.note("vm_compute_crosschecked_cases", n)
    if badi:
        rep.violation("extracted model and vm_compute disagree", {"cases": badi}, no_input=True)

    # the format group is strict (unlike the two MiniPy groups, its proofs survive harmless rewrites of the source): when
    # the source text still has the shape the translator reads but its numbers / width / byte orders no longer satisfy
    # the SRC_fmt_* theorems and none of the correspondences above found an input on which the property fails, the
    # property is no longer shown to hold for the source as it stands
    if sd["translated"] and not sd["ok"] and not rep.violations:
        rep.violation("the theorems about the format constants and word helpers read from the current source "
                      "(coq/src/SrcFmtProps.v) no longer check",
                      {"broken": "source-derived group Fmt", "theorems": [t["name"] for t in sd["theorems"]],
                       "constants_read_from_the_source": sd.get("constants"),
                       "coqc_output_tail": sd["output"][-2000:]}, no_input=True)


def big_matrix(ctx):
    rep, rng, sc = ctx.rep, ctx.rng, ctx.scratch
    status, res = sc.run_worker("bigmatrix_worker", {"n": 70000, "seed": ctx.seed}, timeout=1200)
    if status != "ok":
        rep.violation("70000x70000 run failed", {"impl": trim(res)})
        return
    kc = res["case"]
    p = {k: rwlib.fr(v) for k, v in kc["p"].items()}
    fb = [py_encode(es) for es in kc["files"]]
    enc = rwlib.enc_kernel_case(p, kc["n"], kc["allo"], 0, len(kc["allo"]), fb, [], kc["rows"], kc["cols"])
    mo = run_models([enc])[0]
    mt = rwlib.dec_matrix(mo, kc["rows"], kc["cols"])
    it = {(o, c): rwlib.fr(res["values"][i][j]) for i, o in enumerate(kc["rows"]) for j, c in enumerate(kc["cols"])}
    ne, nr, worst = rwlib.compare_tables(mt, it, p["lam"])
    rep.case({"big_matrix": kc["n"], "rows": kc["rows"], "cols": kc["cols"]})
    rep.note("big_matrix_cells_checked", ne + nr)
    if worst or res.get("stray_nonzero"):
        rep.violation("matrix with more than 2^32 cells trained differently from the model",
                      {"correspondence": "X-binfmt/bigmatrix", "theorems": ["C06_flat_index_no_wrap"],
                       "mismatch": worst, "stray": res.get("stray_nonzero")})


def decode(bs):
    b = bytes(bs)
    n = struct.unpack_from("<I", b, 8)[0]
    off, es = 12, []
    for _ in range(n):
        k = struct.unpack_from("<I", b, off)[0]
        cs = list(struct.unpack_from("<%dI" % k, b, off + 4))
        off += 4 + 4 * k
        k = struct.unpack_from("<I", b, off)[0]
        os_ = list(struct.unpack_from("<%dI" % k, b, off + 4))
        off += 4 + 4 * k
        es.append([cs, os_])
    return es


def trim(r):
    s = repr(r)
    return s if len(s) < 1500 else s[:1500] + "..."
