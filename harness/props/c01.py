"""C01 - learned weights follow the Rescorla-Wagner rule for every event sequence."""
from fractions import Fraction

import json
import core
import rwlib
from core import run_models

RULE = ("X-rw-dict / X-rw-par / X-rw-kernel: generated event sequences (1..40 events, dense small alphabets; "
        "classes forced in every batch: repeated cues/outcomes, cues and outcomes first seen in the last third, "
        "outcome-less events, one event with >1024 cues and one with >1024 outcomes, sequences of 300..530 events in one "
        "temporary file with labels that occur only among the first 20 events), beta1 != beta2, lambda != 1, "
        "remove_duplicates in {None, True, False}; learners dict_ndl (scalar / per-cue alpha; list, generator, file), "
        "ndl threading, ndl openmp and both kernel entry points on harness-written chunks. The exact rational "
        "result of the Coq model (dict model = RWSpec.learn by C01_dict) is compared with Fraction(float) of every "
        "returned cell read through the returned labels: equal -> exact, |d| <= 1e-9*scale -> rounded, else "
        "violation. A case is non-trivial when it has >= 2 events or a repeated token; distinct by content hash.")
TRUSTED = ["numpy/xarray labelled indexing used to read the returned weights",
           "C compiler, libgomp, CPython threads for the real parallel runs"]


def shard(jobs, n):
    idx = list(range(len(jobs)))
    return [(idx[i::n], jobs[i::n]) for i in range(n) if jobs[i::n]]


def run_jobs(sc, script, jobs, n=None, timeout=900, fast=True):
    n = n or core.NCPU
    sh = shard(jobs, n)
    # a different PYTHONHASHSEED per worker process: set/dict iteration orders (new labels of a continued call,
    # de-duplicated ids) must not matter
    results = sc.run_workers(script, [{"jobs": js, "fast_poll": fast} for _, js in sh], timeout=timeout,
                             hashseeds=[(i * 7919 + 13) % 4294967295 for i in range(len(sh))])
    out = [None] * len(jobs)
    for (ids, _), (status, res) in zip(sh, results):
        if status != "ok":
            for i in ids:
                out[i] = {"status": status, "detail": res}
        else:
            for i, r in zip(ids, res):
                out[i] = r
    return out


def job_of_case(cs):
    p = cs["p"]
    j = {"kind": cs["learner"] if cs["learner"] == "dict_ndl" else "ndl", "events": cs["es"], "pol": cs["pol"],
         "beta1": rwlib.nd(p["beta1"]), "beta2": rwlib.nd(p["beta2"]), "lam": rwlib.nd(p["lam"])}
    if isinstance(p["alpha"], dict):
        j["alpha"] = {c: rwlib.nd(v) for c, v in p["alpha"].items()}
    else:
        j["alpha"] = rwlib.nd(p["alpha"])
    if cs["learner"] == "dict_ndl":
        j.update({k: cs.get(k) for k in ("as_file", "as_generator", "make_data_array")})
    else:
        j.update({"method": cs["learner"].split(":")[1], "n_jobs": cs["n_jobs"],
                  "n_outcomes_per_job": cs["n_outcomes_per_job"]})
        if cs.get("events_per_file"):
            j["events_per_file"] = cs["events_per_file"]
        if cs.get("select"):
            j["select"] = cs["select"]
    return j


def gen_cases(rng, n_dict, n_par, thorough):
    cases = []
    for k in range(n_dict):
        pol = [0, 1, 2, 0][k % 4]
        dups = pol in (1, 2) or (k % 8 == 3)              # k%8==3: duplicates under None -> ValueError
        form = ["list", "generator", "file"][k % 3]
        es = rwlib.gen_events(rng, rng.choice([1, 2, 3, 5, 8, 13, 40 if thorough else 20]),
                              n_cue_alpha=rng.choice([3, 5, 9, 24]), n_out_alpha=rng.choice([1, 3, 5, 13, 21]),
                              max_cues=rng.choice([2, 4, 12]), max_outs=rng.choice([1, 3, 6]),
                              dups=dups, file_form=(form == "file"))
        cue_names = sorted({c for cs_, _ in es for c in cs_})
        p = rwlib.gen_params(rng, per_cue=((k // 4) % 2 == 1), cue_names=cue_names)
        cases.append({"learner": "dict_ndl", "es": es, "pol": pol, "p": p,
                      "as_file": form == "file", "as_generator": form == "generator",
                      "make_data_array": k % 5 == 0})
    for k in range(n_par):
        pol = [0, 1, 2][k % 3]
        dups = pol in (1, 2)
        es = rwlib.gen_events(rng, rng.choice([1, 2, 3, 5, 8, 13, 40 if thorough else 17, 24]),
                              n_cue_alpha=rng.choice([3, 5, 9, 24]), n_out_alpha=rng.choice([1, 3, 6, 13, 21]),
                              max_cues=rng.choice([2, 4, 12]), max_outs=rng.choice([1, 3, 6]),
                              dups=dups, file_form=True)
        p = rwlib.gen_params(rng)
        cases.append({"learner": "ndl:" + ["threading", "openmp"][k % 2], "es": es, "pol": pol, "p": p,
                      "n_jobs": rng.choice([1, 2, 3, 5]), "n_outcomes_per_job": rng.choice([1, 2, 3, 10]),
                      # several temporary chunk files (more than 10 for the long sequences): the chronological
                      # order of the events must survive chunking
                      "events_per_file": rng.choice([2, 3, 10000000, 10000000])})
    # events with more than 1024 cues / outcomes through both parallel learners and dict_ndl
    for k, learner in enumerate(["ndl:threading", "ndl:openmp", "dict_ndl"]):
        ncue = rng.randint(1030, 1400)
        nout = rng.randint(1030, 1200)
        cues = ["q%d" % i for i in range(ncue)]
        outs = ["w%d" % i for i in range(nout)]
        es = [[cues[:], ["w0", "w1"]], [["q0", "q1", "q5"], outs[:]], [["q1", "q%d" % (ncue - 1)], ["w%d" % (nout - 1)]]]
        if learner == "dict_ndl":
            es = es[:1] + es[2:]               # keep the pure-Python run short (outer loop is over outcomes)
        p = {"alpha": Fraction(1, 1024), "beta1": Fraction(1, 4), "beta2": Fraction(1, 8), "lam": Fraction(3)}
        sel = {"outcomes": ["w0", "w1", "w2", "w%d" % (nout - 1), "w%d" % (nout // 2)],
               "cues": ["q0", "q1", "q2", "q5", "q%d" % (ncue - 1), "q%d" % (ncue // 2)]}
        cs = {"learner": learner, "es": es, "pol": 0, "p": p, "n_jobs": 3, "n_outcomes_per_job": 100,
              "select": sel, "big": True}
        if learner == "dict_ndl":
            cs.update({"as_file": False, "as_generator": False, "make_data_array": False})
        cases.append(cs)
    # long sequences in ONE temporary file (> 256 events) with labels that occur only at the very beginning: whatever
    # per-event bookkeeping a kernel keeps must not wrap around or go stale over hundreds of events
    for k, learner in enumerate(["ndl:threading", "ndl:openmp", "dict_ndl"] if not thorough else
                                ["ndl:threading", "ndl:openmp", "dict_ndl", "ndl:openmp", "ndl:threading"]):
        n = rng.choice([300, 320]) if k < 3 else 530
        es = []
        for i in range(n):
            cs_ = rng.sample(["c0", "c1", "c2", "c3"], rng.randint(1, 3))
            os_ = rng.sample(["o0", "o1", "o2", "o3"], rng.randint(1, 2))
            if i < 20:
                os_.append(rng.choice(["early0", "early1"]))      # never again afterwards
                if i % 3 == 0:
                    cs_.append("earlycue")
            es.append([cs_, os_])
        p = {"alpha": Fraction(1, 8), "beta1": Fraction(1, 4), "beta2": Fraction(1, 8), "lam": Fraction(1)}
        cs = {"learner": learner, "es": es, "pol": 0, "p": p, "n_jobs": 2, "n_outcomes_per_job": rng.choice([2, 10]),
              "long": True}
        if learner == "dict_ndl":
            cs.update({"as_file": k % 2 == 0, "as_generator": False, "make_data_array": False})
        cases.append(cs)
    return cases


def describe(cs):
    es = cs["es"]
    return {"learner": cs["learner"], "pol": cs["pol"], "n_events": len(es),
            "p": {k: (str(v) if not isinstance(v, dict) else {a: str(b) for a, b in list(v.items())[:4]})
                  for k, v in cs["p"].items()},
            "events": es if len(str(es)) < 600 else str(es)[:600] + "...",
            "n_jobs": cs.get("n_jobs"), "n_outcomes_per_job": cs.get("n_outcomes_per_job"),
            "events_per_temporary_file": cs.get("events_per_file")}


def check_cases(ctx, cases, correspondence="X-rw", theorems=("C01_dict",)):
    """run implementation and model on the cases, compare; returns number of mismatches reported"""
    rep, sc = ctx.rep, ctx.scratch
    jobs = [job_of_case(cs) for cs in cases]
    impl = run_jobs(sc, "rw_worker", jobs)
    mres, enc, mouts = rwlib.model_dict_tables(cases)
    nbad = 0
    for cs, r, mr in zip(cases, impl, mres):
        d = describe(cs)
        rep.case(d, nontrivial=len(cs["es"]) >= 2 or rwlib.has_dups(cs["es"]))
        rep.hist("learner", cs["learner"])
        rep.hist("policy", {0: "None", 1: "True", 2: "False"}[cs["pol"]])
        bad = None
        if r.get("status") not in ("ok", "raise"):
            bad = "learner call did not complete: %s" % (json.dumps(r)[:600])
        elif mr[0] == "err":
            rep.bump("expected_errors")
            if not (r["status"] == "raise" and r["type"] == "ValueError"):
                bad = "duplicates under remove_duplicates=None must raise ValueError, got %s" % (
                    r.get("type") or "a result")
        elif r["status"] == "raise":
            bad = "learner raised %s: %s" % (r["type"], r["msg"])
        else:
            _, mt, no, nc = mr
            v = r["value"]
            if v.get("dup_labels"):
                bad = "result has duplicate labels"
            else:
                if cs.get("select"):
                    if v.get("missing"):
                        bad = "labels missing in the result: %r" % v["missing"][:5]
                    elif "n_outcomes" in v and (v["n_outcomes"] != len(no.names) or v["n_cues"] != len(nc.names)):
                        bad = "result has %d x %d labels, events have %d x %d" % (
                            v["n_outcomes"], v["n_cues"], len(no.names), len(nc.names))
                    mt = {(o, c): x for (o, c), x in mt.items()
                          if no.names[o] in cs["select"]["outcomes"] and nc.names[c] in cs["select"]["cues"]}
                if not bad:
                    it, err = rwlib.impl_table(v, no, nc)
                    if err:
                        bad = err
                    else:
                        # a dict of dicts is an infinite matrix with default 0: untouched cells are absent
                        ne, nr, worst = rwlib.compare_tables(mt, it, cs["p"]["lam"],
                                                             missing_is_zero=cs["learner"] == "dict_ndl")
                        rep.bump("cells_exact", ne)
                        rep.bump("cells_rounded", nr)
                        if worst:
                            worst["outcome"], worst["cue"] = no.names[worst["cell"][0]], nc.names[worst["cell"][1]]
                            bad = "weight differs from the Rescorla-Wagner rule: %r" % (worst,)
        if bad:
            nbad += 1
            rep.violation(bad, {"correspondence": correspondence, "theorems": list(theorems), "case": d,
                                "full_events": cs["es"] if len(cs["es"]) <= 40 and not cs.get("big") else "large"})
            if nbad >= 3:
                break
    rep.coverage["traces_validated_against_impl"] += len(cases)
    return nbad, enc, mouts


def kernel_cases(ctx, n):
    """direct kernel calls with outcome ranges, initial weights, several chunk files"""
    from props.c06 import py_encode
    rep, rng, sc = ctx.rep, ctx.rng, ctx.scratch
    kcases, jobs, menc = [], [], []
    for k in range(n):
        n_cues, n_outs = rng.randint(1, 9), rng.randint(1, 8)
        files = []
        for _ in range(rng.randint(1, 3)):
            es = []
            for _ in range(rng.randint(1, 6)):
                cs = [rng.randrange(n_cues) for _ in range(rng.randint(1, 5))]
                os_ = rng.sample(range(n_outs), rng.randint(0, min(3, n_outs)))
                es.append([cs, os_])
            files.append(es)
        p = rwlib.gen_params(rng)
        allo = rng.sample(range(n_outs), rng.randint(1, n_outs))      # a subset: other rows must stay untouched
        cells = {(rng.randrange(n_outs), rng.randrange(n_cues)): Fraction(rng.randint(-8, 8), 4) for _ in range(6)}
        cells = [(o, c, v) for (o, c), v in cells.items()]
        rows, cols = list(range(n_outs)), list(range(n_cues))
        kc = {"p": p, "n_cues": n_cues, "n_outs": n_outs, "files": files, "allo": allo, "cells": cells,
              "entry": ["threading", "openmp"][k % 2], "chunksize": rng.randint(1, 4), "n_jobs": rng.randint(1, 4)}
        fb = [py_encode(es) for es in files]
        jobs.append({"kind": "kernel", "files": fb, "shape": [n_outs, n_cues],
                     "cells": [[o, c, rwlib.nd(v)] for o, c, v in cells], "all_outcomes": allo,
                     "alpha": rwlib.nd(p["alpha"]), "beta1": rwlib.nd(p["beta1"]), "beta2": rwlib.nd(p["beta2"]),
                     "lam": rwlib.nd(p["lam"]), "entry": kc["entry"], "chunksize": kc["chunksize"],
                     "n_jobs": kc["n_jobs"], "rows": rows, "cols": cols})
        menc.append(rwlib.enc_kernel_case(p, n_cues, allo, 0, len(allo), fb, cells, rows, cols))
        kcases.append(kc)
    impl = run_jobs(sc, "rw_worker", jobs, n=8)
    mouts = run_models(menc)
    for kc, r, mo in zip(kcases, impl, mouts):
        d = {k: kc[k] for k in ("n_cues", "n_outs", "files", "allo", "entry", "chunksize", "n_jobs")}
        d["p"] = {k: str(v) for k, v in kc["p"].items()}
        d["cells"] = [[o, c, str(v)] for o, c, v in kc["cells"]]
        rep.case(d)
        rep.hist("learner", "kernel:" + kc["entry"])
        if r.get("status") != "ok" or mo[0] != 0:
            rep.violation("kernel call failed", {"correspondence": "X-rw-kernel", "case": d, "impl": str(r)[:600]})
            break
        rows, cols = list(range(kc["n_outs"])), list(range(kc["n_cues"]))
        mt = rwlib.dec_matrix(mo, rows, cols)
        it = {(o, c): rwlib.fr(r["value"][i][j]) for i, o in enumerate(rows) for j, c in enumerate(cols)}
        ne, nr, worst = rwlib.compare_tables(mt, it, kc["p"]["lam"])
        rep.bump("cells_exact", ne)
        rep.bump("cells_rounded", nr)
        if worst:
            rep.violation("kernel result differs from the kernel model: %r" % (worst,),
                          {"correspondence": "X-rw-kernel", "theorems": ["C01_kernel"], "case": d})
            break
    rep.coverage["traces_validated_against_impl"] += len(kcases)
    return menc, mouts


def run(ctx):
    rep = ctx.rep
    if ctx.replay:
        d = ctx.replay["detail"]
        rep.note("replay", d.get("case"))
    cases = gen_cases(ctx.rng, 2400 if ctx.thorough else 120, 3600 if ctx.thorough else 240, ctx.thorough)
    rep.lap("generate")
    nbad, enc, mouts = check_cases(ctx, cases)
    rep.lap("learners")
    menc, kouts = kernel_cases(ctx, 800 if ctx.thorough else 40)
    rep.lap("kernels")
    small = [(e, o) for e, o in zip(enc + menc, mouts + kouts)]
    n, badi = core.coq_crosscheck([e for e, _ in small], [o for _, o in small])
    rep.note("vm_compute_crosschecked_cases", n)
    if badi:
        rep.violation("extracted model and vm_compute disagree", {"cases": badi}, no_input=True)
    rep.lap("vm_crosscheck")
