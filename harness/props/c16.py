"""C16 - run metadata is truthful, accumulates one entry per call and survives netCDF."""
import json
import math
import os

import core
from core import run_models, Reader

RULE = ("X-attrs: generated chains of 1..4 learner calls continued through weights= "
        "(RW chains over ndl.ndl threading/openmp, wh.wh without vectors, dict_ndl with DataArray or WeightDict "
        "hand-over; Widrow-Hoff flavour chains binary-to-real / real-to-binary / real-to-real openmp+numpy; "
        "pure-Python chains mixing dict_ndl and dict_wh incl. the late-key orders; chains started from hand-made "
        "weights with attrs {} or foreign keys), every call with its own event file (non-ASCII names, frequency "
        "column, events_per_temporary_file 2..5 and default), its own parameters (float, int, numpy.float64, "
        "numpy.float32) and method. After every call the returned attrs are compared as a map with the Coq model "
        "1601 (exact strings incl. padding; date/timings/host/user/versions enter the model as oracles read from "
        "the environment resp. from the result), split with str.split(' | ') (and with model 1603) and checked "
        "directly: entry count = number of calls for every key (when the hypotheses of C16_entries/C16_mixed_keys "
        "hold), number_events entries = true event counts after frequency expansion, event_path/alpha/betas/"
        "lambda/method/function entries = the str() of the arguments, inputs not mutated. About half of the "
        "DataArray results go through to_netcdf/open_dataarray (labels with non-ASCII, spaces and the '' "
        "outcome): values bit-identical, coordinates, dims and attrs equal, and one more learner call from the "
        "loaded array equals bit for bit the same call from the original. A chain is non-trivial when it has "
        ">= 2 calls or a netCDF round trip; distinct by content hash.")
TRUSTED = ["CPython str() of float/int/tuple/dict/numpy scalars, isinstance, str.split, socket.gethostname, "
           "getpass.getuser, time.strftime and the library __version__ strings (oracles of the model)",
           "netCDF4 / xarray serialisation: modelled as the identity, checked on every run, not proved",
           "len(str(defaultdict)) inside dict_ndl (contains a memory address): inferred from the padding"]

SEP = " | "
VOLATILE = ("date", "cpu_time", "wall_time")
LEARNER_CODE = {"ndl": 0, "wh_bb": 0, "dict_ndl": 1, "wh_b2r": 2, "wh_r2r": 2, "wh_r2b": 3, "dict_wh": 4}
FUNCTION = {"ndl": "pyndl.ndl.ndl", "wh_bb": "pyndl.ndl.ndl", "dict_ndl": "pyndl.ndl.dict_ndl",
            "wh_b2r": "pyndl.wh.pyndl.ndl", "wh_r2r": "pyndl.wh.pyndl.ndl", "wh_r2b": "pyndl.wh.pyndl.ndl",
            "dict_wh": "pyndl.wh.dict_wh"}
NDL_FAMILY = {"ndl", "wh_bb", "dict_ndl", "wh_r2b"}
NDL_KEYS = ["date", "event_path", "number_events", "alpha", "betas", "lambda", "function", "method", "cpu_time",
            "wall_time", "hostname", "username", "pyndl", "numpy", "pandas", "xarray", "cython"]
WH_KEYS = [k for k in NDL_KEYS if k not in ("alpha", "betas")]

CUES = ["a", "b", "c", "Ü", "ß", "é", "日本", "x y", "q", "Zz"]
OUTS = ["o1", "o2", "Ö", "", "結果", "p q", "w"]
FLOATS = [0.1, 0.01, 0.5, 0.25, 1e-05, 0.001, 0.3, 1.0, 2.0, 0.7, 0.125]
FILE_TAGS = ["", "Ü", "日本", "a b", "x|y", "é-ß", "long" * 9]


def cps(s):
    return [ord(ch) for ch in s]


def wr_str(s):
    return [len(s)] + cps(s)


def ratio(x):
    n, d = float(x).as_integer_ratio()
    return [n, d]


# ----------------------------------------------------------------------------
# generators
# ----------------------------------------------------------------------------
def gen_events(rng, single=False, cues=CUES, outs=OUTS):
    es = []
    for _ in range(rng.randint(1, 6)):
        if single:
            es.append([[rng.choice(cues)], [rng.choice(outs)]])
        else:
            cs = rng.sample(cues, rng.randint(1, 3))
            os_ = rng.sample(outs, rng.randint(0, 2)) or [""]
            es.append([cs, os_])
    return es


def gen_freq(rng, n):
    if rng.random() < 0.55:
        return None
    f = [rng.choice([0, 1, 1, 2, 3, 5]) for _ in range(n)]
    if sum(f) == 0:
        f[rng.randrange(n)] = 2
    return f


def gen_number(rng, kinds=("float", "float", "float", "np64", "int")):
    k = rng.choice(kinds)
    if k == "int":
        return {"kind": "int", "v": [rng.choice([1, 1, 2]), 1]}
    return {"kind": k, "v": ratio(rng.choice(FLOATS))}


def base_call(rng, j, learner, single=False, cues=CUES, outs=OUTS):
    es = gen_events(rng, single, cues, outs)
    tag = rng.choice(FILE_TAGS)
    c = {"learner": learner, "events": es, "freq": gen_freq(rng, len(es)),
         "file": "ev%d_%s.tab.gz" % (j, tag), "subdir": rng.choice(["d%d" % j, "sub dir%d" % j, "Üd%d" % j]),
         "pol": 0, "n_jobs": rng.choice([1, 2, 3]), "epf": rng.choice([2, 3, 5, 10000000, 10000000])}
    return c


def rw_call(rng, j, learner=None, last=False):
    learner = learner or rng.choice(["ndl", "ndl", "ndl", "dict_ndl", "wh_bb"])
    c = base_call(rng, j, learner)
    if learner == "ndl":
        c.update({"alpha": gen_number(rng, ("float",) * 7 + ("np64", "np64", "int", "int", "np32")),
                  "beta1": gen_number(rng, ("float", "float", "np64")), "beta2": gen_number(rng, ("float",)),
                  "lam": gen_number(rng), "method": rng.choice(["threading", "openmp"]),
                  "n_outcomes_per_job": rng.choice([1, 2, 10])})
        if rng.random() < 0.08:
            c["input"] = "generator"
    elif learner == "wh_bb":
        c.update({"eta": gen_number(rng, ("float", "float", "np64")), "method": rng.choice(["threading", "openmp"])})
    else:
        if rng.random() < 0.35:
            names = sorted({x for cs, _ in c["events"] for x in cs})
            c["alpha"] = {"kind": "dict", "v": {x: ratio(rng.choice(FLOATS[:6])) for x in names}}
        else:
            c["alpha"] = gen_number(rng, ("float",))
        c.update({"beta1": gen_number(rng, ("float",)), "beta2": gen_number(rng, ("float",)),
                  "lam": gen_number(rng, ("float", "int")), "input": rng.choice(["path", "path", "list"]),
                  "make_data_array": True})
    return c


def gen_rw_chain(rng, k):
    calls = [rw_call(rng, j) for j in range(k)]
    # dict_ndl may hand a WeightDict to a following dict_ndl
    for j in range(k - 1):
        if calls[j]["learner"] == "dict_ndl" and calls[j + 1]["learner"] == "dict_ndl" and rng.random() < 0.5:
            calls[j]["make_data_array"] = False
    ch = {"kind": "rw", "calls": calls}
    if calls[-1].get("make_data_array", True) and rng.random() < 0.55:
        ch["netcdf"] = True
        ch["cont"] = rw_call(rng, 9, rng.choice(["ndl", "ndl", "dict_ndl", "wh_bb"]))
        ch["cont"].pop("input", None) if ch["cont"]["learner"] == "ndl" else None   # no spool path here
        if rng.random() < 0.4:
            # the continuation trains the events of the last call again: no new cue, no new outcome
            ch["cont"]["events"] = [list(map(list, e)) for e in calls[-1]["events"]]
            ch["cont"]["freq"] = calls[-1]["freq"]
            if isinstance(ch["cont"].get("alpha"), dict) and ch["cont"]["alpha"].get("kind") == "dict":
                names = sorted({x for cs, _ in ch["cont"]["events"] for x in cs})
                ch["cont"]["alpha"] = {"kind": "dict", "v": {x: ratio(rng.choice(FLOATS[:6])) for x in names}}
    return ch


def gen_wh_chain(rng, k):
    flavour = rng.choice(["wh_b2r", "wh_r2b", "wh_r2r", "wh_r2r"])
    cues, outs = CUES[:6], OUTS[:5]
    common = {"cue_names": cues, "cue_dims": ["k0", "k1", "kÜ"], "outcome_names": outs,
              "outcome_dims": ["v0", "vß"], "vseed": rng.randint(0, 9)}

    def one(j):
        method = rng.choice(["openmp", "numpy"]) if flavour == "wh_r2r" else "openmp"
        c = base_call(rng, j, flavour, single=(method == "numpy"), cues=cues, outs=outs)
        c.update(common)
        c.update({"eta": gen_number(rng, ("float", "float", "np64")), "method": method})
        return c
    ch = {"kind": "wh", "calls": [one(j) for j in range(k)]}
    if rng.random() < 0.5:
        ch["netcdf"] = True
        ch["cont"] = one(9)
    return ch


def gen_dict_chain(rng, order):
    cues, outs = CUES[:5], OUTS[:4]
    common = {"cue_names": cues, "cue_dims": ["k0", "k1"], "outcome_names": outs, "outcome_dims": ["v0", "v1"],
              "vseed": rng.randint(0, 9)}
    calls = []
    for j, learner in enumerate(order):
        if learner == "dict_wh":
            c = base_call(rng, j, "dict_wh", single=True, cues=cues, outs=outs)
            c.update(common)
            c.update({"eta": gen_number(rng, ("float",)), "input": rng.choice(["path", "list"])})
        else:
            c = rw_call(rng, j, "dict_ndl")
            c["make_data_array"] = False
        calls.append(c)
    return {"kind": "dict", "calls": calls}


def gen_start_chain(rng, k):
    attrs = rng.choice([{}, {}, {"note": "hand made"}, {"date": "long ago", "alpha": "0.3", "Ünit": "x | y"}])
    ch = gen_rw_chain(rng, k)
    ch["kind"] = "start"
    ch["start"] = {"outcomes": rng.sample(OUTS, 2), "cues": rng.sample(CUES, 3), "attrs": attrs}
    return ch


DELTAS = [0.00012345678901234567, 1.0 / 3.0, 12.5, 3.0000000000000004e-07, 0.1 + 0.2, 1234.5678901234567]


def add_clock(rng, chain):
    """dictate the clock readings of every call of the chain"""
    for j, c in enumerate(chain["calls"] + ([chain["cont"]] if chain.get("cont") else [])):
        c0, w0 = rng.random() * 1000, rng.random() * 1e6
        c["clock"] = {"cpu": [ratio(c0), ratio(c0 + rng.choice(DELTAS) * rng.choice([1, 1, 3, 7]))],
                      "wall": [ratio(w0), ratio(w0 + rng.choice(DELTAS) * rng.choice([1, 1, 3, 7]))],
                      "date": "%04d-%02d-%02d %02d:%02d:%02d" % (2031 + j, rng.randint(1, 12), rng.randint(1, 28),
                                                               rng.randint(0, 23), rng.randint(0, 59), j)}


def clock_strings(call):
    fr = lambda nd: nd[0] / nd[1]                                   # noqa: E731
    ck = call["clock"]
    return ck["date"], str(fr(ck["cpu"][1]) - fr(ck["cpu"][0])), str(fr(ck["wall"][1]) - fr(ck["wall"][0]))


def gen_chains(rng, n):
    chains = gen_chains_(rng, n)
    for i, ch in enumerate(chains):
        if i < 12 or rng.random() < 0.4:
            add_clock(rng, ch)
    return chains


def short_dict_chain(rng, order):
    """list input, one-letter labels, dict alpha: everything the width is taken over is short (width 19)"""
    ch = gen_dict_chain(rng, order)
    for c in ch["calls"]:
        c["input"] = "list"
        if c["learner"] == "dict_ndl":
            c["events"] = [[["a"], [rng.choice(["o1", ""])]] for _ in range(rng.randint(1, 3))]
            c["freq"] = None
            c["alpha"] = {"kind": "dict", "v": {"a": ratio(0.5)}}
    return ch


def gen_chains_(rng, n):
    chains = []
    chains.append(short_dict_chain(rng, ["dict_wh", "dict_wh"]))
    chains.append(short_dict_chain(rng, ["dict_ndl", "dict_ndl", "dict_wh"]))
    # forced classes first
    chains.append(gen_dict_chain(rng, ["dict_wh", "dict_wh", "dict_ndl"]))             # late key
    chains.append(gen_dict_chain(rng, ["dict_wh", "dict_wh", "dict_wh", "dict_ndl"]))
    chains.append(gen_dict_chain(rng, ["dict_ndl", "dict_wh", "dict_wh"]))             # ndl family first
    chains.append(gen_dict_chain(rng, ["dict_ndl", "dict_wh", "dict_ndl", "dict_wh"]))
    chains.append(gen_dict_chain(rng, ["dict_wh", "dict_ndl", "dict_ndl"]))
    sp = gen_rw_chain(rng, 2)
    sp["calls"][0]["subdir"] = "a | b"                                                  # separator in a path
    sp["calls"][1]["file"] = "ends with |"
    chains.append(sp)
    while len(chains) < n:
        r = rng.random()
        k = rng.choice([1, 2, 2, 3, 3, 4])
        if r < 0.58:
            chains.append(gen_rw_chain(rng, k))
        elif r < 0.74:
            chains.append(gen_wh_chain(rng, min(k, 3)))
        elif r < 0.90:
            chains.append(gen_dict_chain(rng, [rng.choice(["dict_ndl", "dict_wh"]) for _ in range(k)]))
        else:
            chains.append(gen_start_chain(rng, min(k, 3)))
    return chains


# ----------------------------------------------------------------------------
# model encoding
# ----------------------------------------------------------------------------
def true_count(call):
    f = call.get("freq")
    return len(call["events"]) if f is None else sum(f)


def alpha_kind_code(call):
    if call["learner"] in ("ndl", "dict_ndl"):
        k = call["alpha"]["kind"]
        return {"float": 0, "np64": 0, "int": 1}.get(k, 2)
    if call["learner"] == "wh_bb":
        return 0
    return 2


def last_entry(attrs, key):
    return attrs.get(key, "").split(SEP)[-1].rstrip(" ")


def oracle_strings(call, rec, env):
    """the 15 strings of one invocation; date/timings (and a spool path) are read from the result"""
    a = rec["attrs"]
    path = rec["path"] if rec["path"] is not None else last_entry(a, "event_path")
    alpha_s = rec["alpha_s"]
    strs = {"path": path, "betas": rec["betas_s"], "lambda": rec["lambda_s"], "method": rec["method_s"]}
    if alpha_s is None:
        # dict_ndl with a float alpha: len(str(defaultdict)) is only visible through the padding
        width = len(a.get("method", "").split(SEP)[-1])
        known = max([19] + [len(x) for x in (path, str(true_count(call)), rec["betas_s"], rec["lambda_s"],
                                             FUNCTION[call["learner"]], "None", env["host"], env["user"])])
        alpha_s = "x" * width if width > known else ""
        strs["alpha_inferred"] = True
    strs["alpha"] = alpha_s
    if call.get("clock"):
        vol = list(clock_strings(call))
    else:
        vol = [last_entry(a, "date"), last_entry(a, "cpu_time"), last_entry(a, "wall_time")]
    return [strs["path"], strs["alpha"], strs["betas"], strs["lambda"], strs["method"]] + vol + [
            env["host"], env["user"], env["pyndl"], env["numpy"], env["pandas"], env["xarray"], env["cython"]]


def enc_invocation(call, rec, env):
    n = true_count(call)
    epf = call.get("epf", 10000000)
    jobs = math.ceil(n / epf) + 1
    numpy_flag = 1 if (call["learner"] == "wh_r2r" and call.get("method") == "numpy") else 0
    out = [LEARNER_CODE[call["learner"]], epf, jobs, numpy_flag, alpha_kind_code(call)]
    f = call.get("freq") or [1] * len(call["events"])
    out += [len(f)] + list(f)
    for s in oracle_strings(call, rec, env):
        out += wr_str(s)
    return out


def enc_chain(chain, recs, env, j):
    start = chain.get("start")
    if start is None:
        out = [0]
    else:
        out = [1, len(start["attrs"])]
        for k, v in start["attrs"].items():
            out += wr_str(k) + wr_str(v)
    out += [j]
    for call, rec in zip(chain["calls"][:j], recs[:j]):
        out += enc_invocation(call, rec, env)
    return (1601, out)


def dec_attrs(mo):
    r = Reader(mo[1:])
    n = r.int()
    d = {}
    for _ in range(n):
        k = "".join(map(chr, r.list()))
        v = "".join(map(chr, r.list()))
        if k in d:
            return None
        d[k] = v
    return d


def dec_strs(mo):
    r = Reader(mo)
    return ["".join(map(chr, r.list())) for _ in range(r.int())]


# ----------------------------------------------------------------------------
# checks
# ----------------------------------------------------------------------------
def describe(chain):
    """the complete chain (replayable with --replay)"""
    d = {"kind": chain["kind"], "calls": chain["calls"], "start": chain.get("start"),
         "netcdf": bool(chain.get("netcdf"))}
    if chain.get("cont"):
        d["cont"] = chain["cont"]
    return d


def hypotheses_hold(chain, sepfree):
    """C16_entries / C16_mixed_keys: no start attrs, same family or ndl family first, readable values"""
    if chain.get("start") is not None or not sepfree:
        return False
    fams = [c["learner"] in NDL_FAMILY for c in chain["calls"]]
    return fams[0] or not any(fams)


def expected_entries(call, rec):
    """what the property says the entries of this call are (None: not claimed / not comparable)"""
    exp = {"number_events": str(true_count(call)), "function": FUNCTION[call["learner"]]}
    if rec["path"] is not None:
        exp["event_path"] = rec["path"].rstrip(" ")
    ndl_fam = call["learner"] in NDL_FAMILY
    exp["method"] = rec["method_s"]
    exp["lambda"] = rec["lambda_s"]
    if call.get("clock"):
        exp["date"], exp["cpu_time"], exp["wall_time"] = clock_strings(call)
    if ndl_fam:
        exp["betas"] = rec["betas_s"]
        if call["learner"] in ("ndl", "wh_bb"):
            exp["alpha"] = rec["alpha_s"] if rec["alpha_is_pynum"] else "varying"
        else:
            exp["alpha"] = "varying"
    else:
        exp["alpha"] = exp["betas"] = None          # family without the key: '' when the key exists
    return exp


def raw_values(chain, recs, env):
    """the strings whose readability (sep_free) the theorems assume"""
    raws = []
    for call, rec in zip(chain["calls"], recs):
        o = oracle_strings(call, rec, env)
        raws += o[:1] + o[2:]
        if rec["alpha_is_pynum"]:
            raws.append(o[1])
    return raws


def model_jobs(chain, res, env):
    """all model evaluations one chain needs: (cases, layout)"""
    if res["status"] != "ok":
        return [], None
    recs = res["value"]["calls"]
    k = len(recs)
    chain_cases = [enc_chain(chain, recs, env, j) for j in range(1, k + 1)]
    sf_cases = [(1606, wr_str(s)) for s in raw_values(chain, recs, env)]
    final = recs[-1]["attrs"]
    keys = sorted(final)
    ent_cases = [(1603, wr_str(final[key])) for key in keys]
    return chain_cases + sf_cases + ent_cases, (len(chain_cases), len(sf_cases), keys)


def check_chain(ctx, chain, res, env, findings, mres, layout):
    """returns (bad, detail) for the first problem, else None"""
    rep = ctx.rep
    desc = describe(chain)
    if res["status"] != "ok":
        return "a learner call of the chain raised %s: %s" % (res.get("type"), res.get("msg")), {"case": desc}
    recs = res["value"]["calls"]
    k = len(recs)
    n_chain, n_sf, ent_keys = layout
    mouts = mres[:n_chain]
    sepfree = all(o == [1] for o in mres[n_chain:n_chain + n_sf])
    eo = mres[n_chain + n_sf:]
    hyp = hypotheses_hold(chain, sepfree)
    for j, (rec, mo) in enumerate(zip(recs, mouts), start=1):
        a = rec["attrs"]
        if rec["non_string"]:
            return "an attribute is not a string", {"case": desc, "call": j, "non_string": rec["non_string"],
                                                     "theorems": ["C16_attrs_are_strings"]}
        if mo[0] != 0:
            return "model: the call fails (event count assertion)", {"case": desc, "call": j, "model": mo[:4]}
        m = dec_attrs(mo)
        if m != a:
            diff = {key: {"model": (m or {}).get(key), "impl": a.get(key)}
                    for key in sorted(set(m or {}) | set(a)) if (m or {}).get(key) != a.get(key)}
            def stripped(v):
                return None if v is None else [e.rstrip(" ") for e in v.split(SEP)]
            content = [key for key in sorted(diff) if stripped(diff[key]["model"]) != stripped(diff[key]["impl"])]
            first = (content or sorted(diff) or [None])[0]
            diff = {key: diff[key] for key in ([first] + [x for x in diff if x != first])[:4]} if diff else diff
            return ("attributes after call %d differ from the model (key %r)" % (j, first),
                    {"correspondence": "X-attrs/chain", "theorems": ["C16_entries", "C16_mixed_keys"],
                     "case": desc, "call": j, "differences": dict(list(diff.items())[:4])})
        if not rec["input_attrs_unchanged"] or rec["same_object"]:
            return "a continued call changed the attributes of the weights it was given", {"case": desc, "call": j}
        # --- direct checks on the implementation's strings --------------------------------
        keys = set(a)
        fam_keys = set(NDL_KEYS) if any(c["learner"] in NDL_FAMILY for c in chain["calls"][:j]) else set(WH_KEYS)
        start_keys = set((chain.get("start") or {}).get("attrs", {}))
        if keys != fam_keys | start_keys:
            return "key set differs", {"case": desc, "call": j, "keys": sorted(keys),
                                       "expected": sorted(fam_keys | start_keys)}
        for key, v in a.items():
            ent = v.split(SEP)
            if hyp and len(ent) != j:
                return ("attribute %r has %d entries after %d calls" % (key, len(ent), j),
                        {"correspondence": "X-attrs/count", "theorems": ["C16_entries", "C16_mixed_keys"],
                         "case": desc, "call": j, "value": v})
            if chain.get("start") is not None and chain["start"]["attrs"] == {} and len(ent) == j + 1 \
                    and ent[0] == "" and j == 1 and key == "date":
                findings.setdefault("attrless-start", []).append({"key": key, "entries": len(ent), "calls": j})
            if not hyp and sepfree and chain.get("start") is None and len(ent) != j:
                findings.setdefault("late-key", []).append({"key": key, "entries": len(ent), "calls": j,
                                                            "order": [c["learner"] for c in chain["calls"][:j]]})
        if hyp:
            for i, (call, r_i) in enumerate(zip(chain["calls"][:j], recs[:j])):
                for key, want in expected_entries(call, r_i).items():
                    if key not in a:
                        continue
                    got = a[key].split(SEP)[i].rstrip(" ")
                    want = "" if want is None else want.rstrip(" ")
                    if got != want:
                        if key == "alpha" and call["learner"] == "ndl" and not r_i["alpha_is_pynum"]:
                            continue
                        return ("entry %d of %r is %r, the call's value is %r" % (i + 1, key, got, want),
                                {"correspondence": "X-attrs/values",
                                 "theorems": ["C16_number_events", "C16_parameters", "C16_entries"],
                                 "case": desc, "after_call": j, "value": a[key]})
    for call, rec in zip(chain["calls"], recs):
        if call["learner"] == "ndl" and not rec["alpha_is_pynum"]:
            findings.setdefault("alpha-not-python-number", []).append(
                {"alpha": rec["alpha_s"], "kind": call["alpha"]["kind"],
                 "recorded": rec["attrs"].get("alpha", "").split(SEP)[-1].rstrip(" ")})
        if call["learner"] == "dict_ndl" and call["alpha"]["kind"] == "float":
            findings.setdefault("dict-ndl-float-alpha", []).append(
                {"alpha": call["alpha"], "recorded": rec["attrs"].get("alpha", "").split(SEP)[-1].rstrip(" ")})
        if rec["path"] is None:
            p = last_entry(rec["attrs"], "event_path")
            if not (p.startswith(ctx.scratch.dir) and p.endswith("events.tab.gz")):
                return "event_path of a generator call is not its spool file", {"case": desc, "path": p}
    # --- model 1603 = str.split + rstrip on the real strings ---------------------------------
    final = recs[-1]["attrs"]
    keys = ent_keys
    for key, o in zip(keys, eo):
        if dec_strs(o) != [e.rstrip(" ") for e in final[key].split(SEP)]:
            return "model split/rstrip differs from str.split/str.rstrip", {
                "correspondence": "X-attrs/split", "theorems": ["C16_split_join"], "value": final[key],
                "model": dec_strs(o)}
    ctx.rep.bump("attribute_strings_split", len(keys))
    # --- netCDF ----------------------------------------------------------------------------------
    nc = res["value"].get("netcdf")
    if nc is not None:
        rep.bump("netcdf_roundtrips")
        probs = []
        if not nc["dims_equal"]:
            probs.append("dims")
        if nc["coords_before"] != nc["coords_after"]:
            probs.append("coordinates")
        if not nc["values_equal"]:
            probs.append("values")
        if nc["attrs_before"] != nc["attrs_after"] or nc["attr_types_after"] != ["str"]:
            probs.append("attrs")
        if nc["attrs_before"] != final:
            probs.append("attrs-before-save")
        if probs:
            d = {"correspondence": "X-attrs/netcdf", "case": desc, "changed": probs,
                 "coords_before": nc["coords_before"], "coords_after": nc["coords_after"]}
            if "attrs" in probs:
                d["attrs_diff"] = {key: [nc["attrs_before"].get(key), nc["attrs_after"].get(key)]
                                   for key in set(nc["attrs_before"]) | set(nc["attrs_after"])
                                   if nc["attrs_before"].get(key) != nc["attrs_after"].get(key)}
            return "netCDF round trip changed " + ", ".join(probs), d
        labels = [x for v in nc["coords_before"].values() for x in v]
        rep.hist("netcdf_labels", "non-ascii" if any(ord(ch) > 127 for x in labels for ch in x) else "ascii")
        if "" in labels:
            rep.bump("netcdf_with_empty_label")
        if nc.get("orig_still_equals_file") is False or nc.get("loaded_still_equals_file") is False:
            which = "in-memory weights" if nc.get("orig_still_equals_file") is False else "weights loaded from the file"
            return ("the %s no longer equal the netCDF file saved from them after learning was continued from them: %s"
                    % (which, nc.get("still_why")),
                    {"correspondence": "X-attrs/netcdf-continue", "case": desc})
        if "cont_equal" in nc:
            rep.bump("netcdf_continuations")
            if not nc["cont_equal"]:
                return ("continuing from the loaded weights differs from continuing from the original: "
                        + nc["cont_why"]), {"correspondence": "X-attrs/netcdf-continue", "case": desc}
            a1, a2 = nc["cont_attrs_orig"], nc["cont_attrs_loaded"]
            for key in set(a1) | set(a2):
                e1, e2 = a1.get(key, "").split(SEP), a2.get(key, "").split(SEP)
                if key in VOLATILE:
                    e1, e2 = e1[:-1], e2[:-1]
                if [x.rstrip(" ") for x in e1] != [x.rstrip(" ") for x in e2] or len(e1) != len(e2):
                    return "attributes after continuing from the loaded weights differ (%r)" % key, {
                        "correspondence": "X-attrs/netcdf-continue", "case": desc,
                        "orig": a1.get(key), "loaded": a2.get(key)}
            if hyp:
                bad = [key for key, v in a1.items() if len(v.split(SEP)) != k + 1]
                if bad:
                    return "continuation after netCDF: %r does not have %d entries" % (bad[0], k + 1), {
                        "correspondence": "X-attrs/count", "case": desc, "value": a1[bad[0]]}
    return None


def run(ctx):
    rep, rng, sc = ctx.rep, ctx.rng, ctx.scratch
    ctx.model_cases, ctx.model_outs = [], []
    # an escalated quick run (changed tree) takes three times the chains, the thorough tier ten times
    n = (900 if getattr(ctx, "escalated", False) else 3000) if ctx.thorough else 300
    chains = gen_chains(rng, n)
    if ctx.replay and isinstance(ctx.replay.get("detail", {}).get("case"), dict):
        chains = [ctx.replay["detail"]["case"]]          # ./check C16 --replay <file>: that chain only
        rep.note("replay", True)
    rep.lap("generate")
    nsh = core.NCPU
    idx = list(range(len(chains)))
    shards = [(idx[i::nsh], chains[i::nsh]) for i in range(nsh) if chains[i::nsh]]
    results = sc.run_workers("attrs_worker", [{"chains": cs} for _, cs in shards], timeout=900,
                             hashseeds=[rng.randrange(1000) for _ in shards])
    rep.lap("learners")
    out = [None] * len(chains)
    env = None
    for (ids, _), (status, res) in zip(shards, results):
        if status != "ok":
            raise RuntimeError("attrs worker failed: %s %r" % (status, res))
        env = env or res["env"]
        if res["env"] != env:
            raise RuntimeError("workers disagree about the environment")
        for i, r in zip(ids, res["chains"]):
            out[i] = r
    rep.note("environment", env)
    findings = {}
    nbad = 0
    # all model evaluations in one batch
    allcases, spans = [], []
    for chain, res in zip(chains, out):
        cs, layout = model_jobs(chain, res, env)
        spans.append((len(allcases), len(cs), layout))
        allcases += cs
    allouts = run_models(allcases)
    rep.note("model_evaluations", len(allcases))
    rep.lap("models")
    for chain, res, (off, cnt, layout) in zip(chains, out, spans):
        k = len(chain["calls"])
        rep.case(describe(chain), nontrivial=k >= 2 or bool(chain.get("netcdf")))
        rep.hist("chain_kind", chain["kind"])
        rep.hist("chain_length", k)
        rep.hist("clock", "dictated" if chain["calls"][0].get("clock") else "real")
        for c in chain["calls"]:
            rep.hist("learner", c["learner"] + (":" + c["method"] if "method" in c else ""))
            rep.hist("frequency_column", c.get("freq") is not None)
        bad = check_chain(ctx, chain, res, env, findings, allouts[off:off + cnt], layout)
        if layout:
            ctx.model_cases += allcases[off:off + layout[0]]
            ctx.model_outs += allouts[off:off + layout[0]]
        rep.coverage["traces_validated_against_impl"] += k
        if bad:
            nbad += 1
            rep.violation(bad[0], bad[1])
            if nbad >= 3:
                break
    rep.lap("compare")
    # behaviour that contradicts the property text on the unchanged tree: reported, never hidden
    open_, _ = core.known_findings()
    listed = {key: text for (p, key, text) in open_ if p == "C16"}
    summary = {}
    for key, items in findings.items():
        summary[key] = {"occurrences": len(items), "example": items[0]}
        if key in listed:
            rep.known_finding("key=%s %s" % (key, listed[key]))
    rep.note("behaviour_outside_the_property", summary)
    # extraction vs the Coq VM on a slice
    small = [(c, o) for c, o in zip(ctx.model_cases, ctx.model_outs) if len(c[1]) + len(o) < 4000]
    nchk, badi = core.coq_crosscheck([c for c, _ in small][:40], [o for _, o in small][:40])
    rep.note("vm_compute_crosschecked_cases", nchk)
    if badi:
        rep.violation("extracted model and vm_compute disagree", {"cases": badi}, no_input=True)
    rep.lap("vm_crosscheck")
