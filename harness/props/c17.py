"""C17 - learner calls leave no temporary files behind and never touch their inputs."""
import core
import faultlib

RULE = ("X-tmp: the C05 call matrix (success and every injected failure, every position, swept byte budgets), events given as "
        "path or generator (also a generator that raises half-way), temporary_directory given (with a bystander file that must "
        "survive) or defaulted (TMPDIR redirected to a private directory). After the call returned or raised, a recursive "
        "listing of both directories must equal the listing before the call and the sha256 of the input file must be "
        "unchanged. A case is non-trivial when the call creates temporary files (parallel learners) or fails; distinct by "
        "content hash.")
TRUSTED = ["tempfile.TemporaryDirectory / shutil.rmtree and the file system; races between Pool.terminate and rmtree on "
           "failure are observed, not modelled"]


def run(ctx):
    rep = ctx.rep
    cases = faultlib.gen_cases(ctx.rng, ctx.thorough)
    results = faultlib.run_cases(ctx, cases)
    rep.lap("runs")
    for c, (status, res, job) in zip(cases, results):
        if status == "skipped":
            rep.bump("skipped_after_timeouts")
            continue
        d = faultlib.describe(c)
        rep.case(d, nontrivial=c["expect"] == "raise" or d["learner"] not in ("dict_ndl", "dict_wh", "wh_r2r_numpy"))
        rep.hist("learner", d["learner"])
        rep.hist("input", d["input"])
        rep.hist("temporary_directory", "given" if c["job"].get("give_tmp", True) else "default")
        if status == "timeout":
            status, res = faultlib.confirm_timeout(ctx, job)
        if status == "timeout":
            rep.violation("learner call blocked (its temporary directory is never removed): %s / %s" % (d["learner"], c["name"]),
                          {"correspondence": "X-tmp/deadline", "theorems": ["C17_learner_clean"], "case": d})
            break
        if status != "ok":
            rep.violation("worker crashed", {"correspondence": "X-tmp", "case": d, "impl": str(res)[:800]})
            break
        rep.hist("call_outcome", res["status"])
        bad = None
        if res["system_tmp_new"]:
            bad = "left in the system temporary directory: %r" % res["system_tmp_new"][:6]
        elif res["given_tmp_new"]:
            bad = "left in the given temporary_directory: %r" % res["given_tmp_new"][:6]
        elif res["given_tmp_lost"]:
            bad = "removed from the given temporary_directory a file it did not create: %r" % res["given_tmp_lost"][:6]
        elif not res["input_unchanged"]:
            bad = "the input event file was modified or removed"
        if bad:
            rep.violation("after a call that %s (%s, %s): %s" % ("raised " + res.get("type", "") if res["status"] == "raise"
                                                                  else "returned", d["learner"], c["name"], bad),
                          {"correspondence": "X-tmp", "theorems": ["C17_bracket_restores", "C17_learner_clean"], "case": d,
                           "impl": {k: v for k, v in res.items() if k != "value"}})
            break
    rep.coverage["traces_validated_against_impl"] += len(cases)
