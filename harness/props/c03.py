"""C03 - continuing from earlier weights equals learning everything in one pass."""
from fractions import Fraction

import core
import rwlib
from props.c01 import run_jobs

RULE = ("X-continue: event sequences of 4..14 events; every 2-way split position and random 3- and 4-way splits; "
        "chains over {dict_ndl -> WeightDict, dict_ndl -> DataArray, ndl threading, ndl openmp} (a WeightDict can only "
        "be handed to dict_ndl), later parts with and without new cues/outcomes, the three duplicate policies. The "
        "chained result is compared cell by cell (through labels) with the exact rational result of the model on the "
        "whole sequence (= learn of the concatenation by C03_chain) - equal: exact, |d| <= 1e-9*scale: rounded, else "
        "violation - and every weights argument is snapshotted (values, labels, attrs) before the call and compared "
        "after it. A case is non-trivial when it has >= 2 parts; distinct by content hash.")
TRUSTED = ["non-mutation of the argument is an aliasing fact outside a pure model: it is monitored on every chain step, not proved",
           "numpy/xarray labelled indexing used to read the returned weights"]

KINDS = ["dict", "dict_da", "ndl_threading", "ndl_openmp"]


def gen_chain(rng, k):
    chain = []
    prev = None
    for _ in range(k):
        if prev == "dict":
            kind = rng.choice(["dict", "dict_da"])
        else:
            kind = rng.choice(KINDS)
        chain.append(kind)
        prev = kind
    return chain


def splits(n, k, rng):
    cuts = sorted(rng.sample(range(1, n), k - 1))
    return cuts


def wh_chains(ctx):
    """same-flavour Widrow-Hoff chains (the WH half of C03): two calls chained through weights=, also with the
    vector tables of the continued call in another row/column order, against the kernel model of the whole sequence"""
    import whlib
    from props import c08
    rep, rng, sc = ctx.rep, ctx.rng, ctx.scratch
    pool = c08.gen_cases(rng, 600 if ctx.thorough else 150, ctx.thorough)
    wc = [c for c in pool if c["cut"] is not None]
    jobs = []
    for c in wc:
        jobs.append({"flavour": c["fl"], "impl": c["impl"], "eta": rwlib.nd(c["eta"]), "cue_vectors": c["cv"],
                     "outcome_vectors": c["ov"], "pol": c["pol"],
                     "parts": [c["events"][:c["cut"]], c["events"][c["cut"]:]], "n_jobs": c["n_jobs"],
                     "n_outcomes_per_job": c["n_outcomes_per_job"], "per": c["per"],
                     "cue_vectors2": c.get("cv2"), "outcome_vectors2": c.get("ov2")})
    impl = run_jobs(sc, "wh_worker", jobs)
    mtabs, _, _ = whlib.model_tables(wc)
    for c, r, mt in zip(wc, impl, mtabs):
        d = c08.describe(c)
        rep.case(d, nontrivial=True)
        rep.hist("handover", "wh_%s->wh_%s%s" % (c["fl"], c["fl"], " (tables reordered)" if (c.get("cv2") or c.get("ov2")) else ""))
        bad = None
        if r.get("status") != "ok":
            bad = "chain failed: %s" % str(r)[:400]
        elif not r["value"].get("arguments_unchanged", True):
            bad = "the weights handed to the continued call were modified"
        else:
            _, _, worst = rwlib.compare_tables(mt, whlib.impl_table(r["value"]), 1, missing_is_zero=c["impl"] == "dict_wh")
            if worst:
                bad = "chained Widrow-Hoff result differs from the single pass: %r" % (worst,)
        if bad:
            rep.violation("wh %s %s: %s" % (c["fl"], c["impl"], bad),
                          {"correspondence": "X-continue/wh", "theorems": ["C03_chain", "C08_*"], "case": d})
            break
    rep.coverage["traces_validated_against_impl"] += len(wc)
    rep.lap("wh_chains")


def run(ctx):
    rep, rng, sc = ctx.rep, ctx.rng, ctx.scratch
    n_seq = 400 if ctx.thorough else 36
    cases = []
    for s in range(n_seq):
        pol = [0, 2, 1][s % 3]
        small_vocab = s % 2 == 0
        es = rwlib.gen_events(rng, rng.randint(4, 14), n_cue_alpha=3 if small_vocab else 7,
                              n_out_alpha=2 if small_vocab else 5, max_cues=3, max_outs=2,
                              dups=pol != 0, late=not small_vocab, file_form=True,
                              shared=s % 3 == 1)     # one vocabulary for cues and outcomes in a third of the sequences
        p = rwlib.gen_params(rng)
        n = len(es)
        cutsets = [[c] for c in range(1, n)] if (ctx.thorough or s < 4) else [[c] for c in rng.sample(range(1, n), min(3, n - 1))]
        for k in (3, 4):
            if n >= k:
                for _ in range(2 if ctx.thorough else 1):
                    cutsets.append(splits(n, k, rng))
        for cuts in cutsets:
            bounds = [0] + cuts + [n]
            parts = [es[a:b] for a, b in zip(bounds, bounds[1:])]
            chain = gen_chain(rng, len(parts))
            cases.append({"es": es, "p": p, "pol": pol, "cuts": cuts, "chain": chain, "parts": parts})
    jobs = []
    for cs in cases:
        jobs.append({"kind": "chain", "pol": cs["pol"],
                     "p": {k: rwlib.nd(v) for k, v in cs["p"].items()},
                     "parts": [{"learner": kind, "events": part, "n_jobs": rng.choice([1, 2, 3]),
                                "n_outcomes_per_job": rng.choice([1, 2, 10]), "as_file": rng.random() < 0.3}
                               for kind, part in zip(cs["chain"], cs["parts"])]})
    impl = run_jobs(sc, "rw_worker", jobs)
    rep.lap("chains")
    mres, enc, mouts = rwlib.model_dict_tables([{"p": c["p"], "pol": c["pol"], "es": c["es"]} for c in cases])
    for cs, r, mr in zip(cases, impl, mres):
        d = {"events": cs["es"], "cuts": cs["cuts"], "chain": cs["chain"], "pol": cs["pol"],
             "p": {k: str(v) for k, v in cs["p"].items()}}
        rep.case(d, nontrivial=len(cs["parts"]) >= 2)
        rep.hist("chain_length", len(cs["chain"]))
        for a, b in zip(cs["chain"], cs["chain"][1:]):
            rep.hist("handover", a + "->" + b)
        first_vocab = {t for e in cs["parts"][0] for t in e[0] + e[1]}
        later_vocab = {t for part in cs["parts"][1:] for e in part for t in e[0] + e[1]}
        rep.hist("later_parts_bring_new_labels", bool(later_vocab - first_vocab))
        bad = None
        if r.get("status") not in ("ok", "raise"):
            bad = "chain did not complete: %s" % str(r)[:500]
        elif mr[0] == "err":
            if not (r["status"] == "raise" and r["type"] == "ValueError"):
                bad = "duplicates under remove_duplicates=None must raise ValueError"
        elif r["status"] == "raise":
            bad = "chain raised %s: %s" % (r["type"], r["msg"])
        else:
            v = r["value"]
            if v["mutated_arguments"]:
                bad = "the weights handed to step(s) %r of the chain were modified by the call" % v["mutated_arguments"]
            else:
                _, mt, no, nc = mr
                it, err = rwlib.impl_table(v, no, nc)
                if err:
                    bad = err
                else:
                    ne, nr, worst = rwlib.compare_tables(mt, it, cs["p"]["lam"],
                                                         missing_is_zero=cs["chain"][-1] in ("dict", "dict_da"))
                    rep.bump("cells_exact", ne)
                    rep.bump("cells_rounded", nr)
                    if worst:
                        worst["outcome"], worst["cue"] = no.names[worst["cell"][0]], nc.names[worst["cell"][1]]
                        bad = "chained result differs from the single pass: %r" % (worst,)
        if bad:
            rep.violation(bad, {"correspondence": "X-continue", "theorems": ["C03_chain", "C03_dict_continue",
                                                                             "C03_kernel_from_any_weights"],
                                "case": d})
            break
    rep.coverage["traces_validated_against_impl"] += len(cases)
    wh_chains(ctx)
    n, badi = core.coq_crosscheck(enc[:100], mouts[:100])
    rep.note("vm_compute_crosschecked_cases", n)
    if badi:
        rep.violation("extracted model and vm_compute disagree", {"cases": badi}, no_input=True)
