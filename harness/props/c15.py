"""C15 - every stage's output is valid input for the next stage (end-to-end pipelines)."""
import collections
import os
import sys
from fractions import Fraction

import core
import rwlib
import textlib as tl
from core import run_models, wr_list
from props import c09, c10

# the thorough generators of this check take 4-10 minutes: a changed tree is explored with the quick ones (the stage
# checks C07, C09, C10, C11, C01 and C12 escalate instead)
ESCALATE = False
RULE = ("X-pipeline: end-to-end runs  producer -> preprocess.filter_event_file -> io.events_from_file and "
        "count.cues_outcomes -> ndl.dict_ndl, ndl.ndl(threading), ndl.ndl(openmp) -> activation.activation  in ONE "
        "process per pipeline, every stage reading the file the previous stage left.  Producers: "
        "(a) preprocess.create_event_file on random Unicode corpora of 0..8 lines (words over Latin, Greek, "
        "Cyrillic, Hebrew, Arabic, CJK, astral letters, combining marks, digits, punctuation, characters whose "
        "lower() changes length; the special symbols # _ TAB between and inside words; non-ASCII white space "
        "U+00A0 U+3000 U+001F U+2003 VT FF FS NEL LS PS at word edges and INSIDE words; BOM / ZWSP; document markers "
        "in all the variants of the C09 generator) x every cell of context {document,line} x event "
        "{consecutive_words,word_to_word,line} x cue {trigrams,bigrams,word_to_word} x lower_case x "
        "remove_duplicates x allowed_symbols {'all', regex class, callable} (216 cells, each hit in every round); "
        "(b) io.events_to_file from lists / joined strings / a generator, compatible in {False, True}, random Unicode "
        "tokens of all planes with leading/trailing odd white space, events without outcomes (the three-column "
        "file of compatible=True goes to reader / counting / learners directly: the filter does not take it, "
        "C15_filter_rejects_compatible_file_refuted).  Filter rules "
        "{all, keep, remove, map} drawn independently for cues and outcomes over the token universe of the "
        "producer's file (plus '', unknown tokens, rename targets with inner blanks and non-ASCII white space; "
        "never a separator inside a rename target), n_jobs 1..4, chunksize {1,2,7,100000}; count n_jobs 1..5; "
        "learner parameters dyadic, remove_duplicates True/False when an event of the final file repeats a token, "
        "else also None; ndl n_jobs 1..3, n_outcomes_per_job {1,2,3,10}, several temporary chunk files; activation "
        "n_jobs 1..2.  After EVERY stage the stage's file is compared with the stage model run on the REAL input of "
        "that stage: 901 = 902 (creation; token-wise for remove_duplicates=True) or 702 (writer), 1001 (filter, code "
        "point for code point), 701 (reader, of both files), 1101 (counts, and = the direct count of the events "
        "read), 1501 (the executable well-formedness check of C15_checked_file_parses on both real files), 1502 (the "
        "composed model pipeline_events = the events the real chain ends with; its three oracle/rule hypothesis "
        "verdicts must be 1), 201 (every learner = exact rational Rescorla-Wagner weights of exactly the events "
        "read, labels = the tokens), activations = sums of the returned weights over the cues of every event, as "
        "exact Fractions (equal -> exact, |d| <= 1e-9*scale -> rounded).  The oracle hypothesis lower_ok is also "
        "checked on ALL of Unicode in every run.  One dedicated pipeline has a cue ending in U+0000 (known finding "
        "trailing-nul-label).  A case is non-trivial when its final file has >= 2 events; distinct by content hash.")
TRUSTED = ["oracle tables computed by CPython for the characters of each corpus: str.lower (per character; U+03A3 "
           "excluded, every line checked to lower character-wise), str.isspace, the regex class / callable given as "
           "allowed_symbols; the hypothesis lower_ok (no line break created by lower) is checked on the tables "
           "(model 1502) and on all code points",
           "gzip and UTF-8 text I/O; text-mode line iteration (only \\n ends a line in the generated corpora)",
           "multiprocessing.Pool (imap / starmap) as modelled in Filter.v and Count.v",
           "numpy/xarray labelled indexing used to read the returned weights and activations"]

M_LO, M_UP = c09.M_LO, c09.M_UP
SCRIPTS = ["abcdeXYZ", "abcABC", "\xe4\xc4\xf6\xdf\xe9\xc9", "\u03b1\u03b2\u0393\u03c2\u03c3", "\u0436\u044f\u042f\u0414",
           "\u05d0\u05d1\u05d2", "\u0639\u0631\u0628", "\u65e5\u672c\u8a9e", "\U0001f600\U00010400\U00010428",
           "e\u0301o\u0308", "\u0130\u1e9e\u01c5I", "0123456789", "\ufeff\u200b\xad"]
PUNCT = ".,-!'\"?;:()[]/\\+=*&%$@^~<>|{}`"
INNER_WS = ["\xa0", "\u3000", "\x1f", "\u2003", "\x0b", "\x0c", "\x1c", "\x1d", "\x1e", "\x85", "\u2028", "\u2029",
            "\u1680", "\u202f", "\u205f"]
SEPARATORS = [" ", " ", " ", " ", "  ", "\t", "_", "#", "\xa0", " \u3000", "\x1f ", " \u2028", "", " _ ", "#\t"]
CHUNKSIZES = [1, 2, 7, 100000]
TOL = rwlib.TOL


# ---------------------------------------------------------------------------------------------
# generators
# ---------------------------------------------------------------------------------------------
def gen_word(rng):
    r = rng.random()
    if r < 0.45:
        pool = rng.choice(SCRIPTS[:2])
    elif r < 0.85:
        pool = rng.choice(SCRIPTS)
    else:
        pool = rng.choice(SCRIPTS) + PUNCT
    w = "".join(rng.choice(pool) for _ in range(rng.choice([1, 1, 2, 2, 3, 4])))
    r = rng.random()
    if r < 0.12:                                  # white space that only str.strip()/isspace know, INSIDE the word
        p = rng.randint(1, len(w))
        w = w[:p] + rng.choice(INNER_WS) + w[p:] + rng.choice("abX\u0436")
    elif r < 0.2:                                 # at the edges: stripped by word.strip()
        w = rng.choice(INNER_WS) + w + rng.choice(INNER_WS + [""])
    elif r < 0.26:                                # a special symbol inside the word cuts it
        p = rng.randint(0, len(w))
        w = w[:p] + rng.choice("#_\t") + w[p:]
    return w


def gen_line(rng, marker_rate):
    r = rng.random()
    if r < 0.06:
        return ""
    if r < 0.1:
        return rng.choice([" ", "\xa0\u3000", " \t ", "#", "_ #", "\x1f"])
    if r < 0.1 + 0.08 * (marker_rate > 0):
        return rng.choice(["", " ", "\xa0"]) + rng.choice([M_LO, M_UP]) + rng.choice(["", " ", "\t"])
    parts = []
    n = rng.choice([1, 2, 2, 3, 4, 5, 6])
    for i in range(n):
        if rng.random() < marker_rate:
            parts.append(c09.gen_marker(rng)[0])
        else:
            parts.append(gen_word(rng))
        if i + 1 < n:
            parts.append(rng.choice(SEPARATORS))
    line = "".join(parts)
    if rng.random() < 0.12:
        line = rng.choice([" ", "\xa0", "\t", "\u3000", "\x1f"]) + line + rng.choice([" ", "\u2003", " #", "\x85"])
    return line


def gen_corpus(rng, rep):
    marker_rate = rng.choice([0.0, 0.0, 0.15, 0.3])
    lines = []
    for _ in range(rng.choice([0, 1, 2, 2, 3, 3, 4, 5, 6, 8, rng.randint(9, 24)])):
        line = gen_line(rng, marker_rate)
        if "\u03a3" in line or "\r" in line or "\n" in line or not c09.lowers_charwise(line):
            rep.bump("lines_skipped_lower_not_charwise")
            continue
        lines.append(line)
    return lines


def s_of(cps):
    return "".join(map(chr, cps))


def cps(s):
    return [ord(c) for c in s]


def text_tokens(text):
    """token universe of an event text (harness-side helper for drawing filter rules only)"""
    cs, os_ = set(), set()
    for line in text.split("\n")[1:]:
        f = line.split("\t")
        if len(f) >= 2:
            cs.update(f[0].split("_"))
            os_.update(f[1].split("_"))
    return sorted(cs), sorted(os_)


RENAME_TARGETS = ["X", "Y", "new name", "\xe9\xa0", "q\u2028q", " lead", "trail\x1f", "", "#h#"]


def gen_rule(rng, universe):
    kind = rng.choice(["all", "keep", "keep", "remove", "remove", "map", "map"])
    if kind == "all":
        return ["all"]
    pool = list(dict.fromkeys(list(universe) + ["zz", "never"]))      # distinct: the keys of a dict
    if rng.random() < 0.3 and "" not in pool:
        pool.append("")
    if kind == "keep":
        k = rng.randint(max(1, (2 * len(pool)) // 3), len(pool))  # mostly generous: keep the pipeline alive
    else:
        k = rng.randint(0, max(1, len(pool) // 3))
    toks = rng.sample(pool, min(k, len(pool)))
    if kind in ("keep", "remove"):
        return [kind, toks, rng.choice(["list", "list", "tuple", "set", "frozenset", "dict"])]
    if kind == "map":
        toks = rng.sample(pool, rng.randint(max(1, (2 * len(pool)) // 3), len(pool)))
    items = []
    for t in toks:
        r = rng.random()
        v = t if r < 0.5 else (rng.choice(RENAME_TARGETS) if r < 0.8 else rng.choice(pool))
        items.append([t, v])
    return ["map", items]


def rule_values_clean(rule):
    return rule[0] != "map" or all(not (set(v) & set("\t\n\r_")) for _, v in rule[1])


def gen_filter(rng, text):
    cu, ou = text_tokens(text)
    rc = gen_rule(rng, cu)
    ro = gen_rule(rng, ou)
    assert rule_values_clean(rc) and rule_values_clean(ro)
    return {"rc": rc, "ro": ro, "n_jobs": rng.randint(1, 4), "chunksize": rng.choice(CHUNKSIZES)}


def gen_learn(rng, final_events):
    p = rwlib.gen_params(rng)
    # keep the Rescorla-Wagner iteration a contraction on this file (alpha * beta * #cues <= 1/2): bounded
    # weights, and most floating-point operations stay exact
    maxc = max([len(cs) for cs, _ in final_events] + [1])
    while p["alpha"] * maxc > 1:
        p["alpha"] = p["alpha"] / 2
    return {"alpha": rwlib.nd(p["alpha"]), "beta1": rwlib.nd(p["beta1"]), "beta2": rwlib.nd(p["beta2"]),
            "lam": rwlib.nd(p["lam"]), "n_jobs": rng.choice([1, 2, 3]), "n_outcomes_per_job": rng.choice([1, 2, 3, 10]),
            "events_per_file": rng.choice([2, 3, 10000000, 10000000]), "activation_jobs": rng.choice([1, 1, 2]),
            "learners": ["dict_ndl", "ndl:threading", "ndl:openmp"] + (["dict_ndl_da"] if rng.random() < 0.25 else []),
            "p": p}


def writer_events(rng):
    n = rng.choice([1, 2, 3, 5, 8, 12])
    es = tl.clean_events(rng, n, no_nul=True, dups=rng.random() < 0.4)
    for e in es:
        if rng.random() < 0.2:
            e[1] = []                      # no outcomes: written as the empty field, read as ['']
    return es


# ---------------------------------------------------------------------------------------------
# model side
# ---------------------------------------------------------------------------------------------
def lines_of_text(text_cps):
    """decoded file -> what c09.compare expects from its worker"""
    s = s_of(text_cps)
    if s == "":
        return {"lines": [], "final_newline": True}
    fin = s.endswith("\n")
    body = s[:-1] if fin else s
    return {"lines": [cps(l) for l in body.split("\n")], "final_newline": fin}


def dec_pipeline(mo):
    """1502 -> dict(verdicts, text or None, events or None)"""
    if mo[:1] != [0]:
        raise RuntimeError("model 1502 could not decode the case: %r" % (mo[:6],))
    res = {"verdicts": mo[1:4], "text": None, "events": None}
    rest = mo[4:]
    if rest[:1] == [-1]:
        return res
    r = core.Reader(rest[1:])
    res["text"] = r.list()
    tail = r.rest()
    if tail[:1] == [-1]:
        return res
    st, ev = tl.dec_events(tail)
    res["events"] = ev
    return res


def sorted_event(e):
    return [sorted(e[0]), sorted(e[1])]


def has_dups(events):
    return any(len(set(map(tuple, c))) != len(c) or len(set(map(tuple, o))) != len(o) for c, o in events)


def direct_counts(events):
    cc, oc = collections.Counter(), collections.Counter()
    for cs, os_ in events:
        cc.update(tuple(t) for t in cs)
        oc.update(tuple(t) for t in os_)
    return (len(events), sorted([list(k), v] for k, v in cc.items()), sorted([list(k), v] for k, v in oc.items()))


def unicode_oracle_scan(rep):
    """the hypothesis of C15_create_output_wellformed on every code point: lower() creates no line break;
    also recorded: characters whose lower() contains a special symbol (harmless: lower runs first)"""
    bad, special = [], []
    for c in range(0x110000):
        if 0xD800 <= c <= 0xDFFF:
            continue
        ch = chr(c)
        lo = ch.lower()
        if lo == ch:
            continue
        if ch not in "\n\r" and ("\n" in lo or "\r" in lo):
            bad.append(c)
        if any(x in lo for x in "#_\t"):
            special.append(c)
    # the models get the corpus lines WITHOUT their terminator: justified because str.strip() removes it
    not_space = [c for c in (9, 10, 13, 32) if not chr(c).isspace()]
    rep.note("unicode_scan", {"code_points": 0x110000 - 0x800, "lower_creates_linebreak": bad[:10],
                              "lower_creates_special_symbol": special[:10],
                              "tab_lf_cr_space_not_white_space": not_space})
    return bad + not_space


# ---------------------------------------------------------------------------------------------
# one batch of pipelines
# ---------------------------------------------------------------------------------------------
def describe(case):
    p = case["producer"]
    d = {"producer": p["kind"], "filter": case["filter"], "pol": {0: None, 1: True, 2: False}[case["pol"]],
         "count_jobs": case["count_jobs"]}
    if p["kind"] == "create":
        d.update({k: p[k] for k in ("lines", "context", "event", "event_options", "cue", "lower", "dedup", "allowed")})
    else:
        d.update({"events": [[[s_of(t) for t in cs], [s_of(t) for t in os_]] for cs, os_ in p["events"]][:30],
                  "compatible": p["compatible"], "form": p["form"]})
    if case.get("learn"):
        d["params"] = {k: str(v) for k, v in case["learn"]["p"].items()}
        d["ndl"] = {k: case["learn"][k] for k in ("n_jobs", "n_outcomes_per_job", "events_per_file", "activation_jobs")}
    return d


def job_of(case):
    j = {k: case[k] for k in ("producer", "filter", "pol", "count_jobs")}
    if case["producer"]["kind"] == "create":
        j["producer"] = dict(case["producer"], lines=[cps(l) for l in case["producer"]["lines"]])
    if case.get("learn"):
        j["learn"] = {k: v for k, v in case["learn"].items() if k != "p"}
    return j


def viol(rep, what, case, detail, theorems, corr):
    d = {"correspondence": corr, "theorems": theorems, "case": describe(case)}
    d.update(detail)
    rep.violation(what, d)


def check_text_stage(rep, case, stage, text, back, count, m_read, m_count, m_wf, expect_wf):
    """reader / counting / well-formedness of one real file; returns the events or None after a violation"""
    st, mev = tl.dec_events(m_read)
    show = s_of(text)[:800]
    if expect_wf:
        if m_wf[:2] != [0, 1]:
            bad = [i for i, v in enumerate(m_wf[3:]) if v != 1]
            viol(rep, "a line of the %s file is not a well-formed event line" % stage, case,
                 {"file": show, "bad_line_numbers_after_header": bad[:10], "model_1501": m_wf[:40]},
                 ["C15_create_output_wellformed", "C15_filter_preserves_wellformed", "C15_checked_file_parses"],
                 "X-pipeline/wellformed")
            return None
        if st != "ok":
            raise RuntimeError("model contradicts C15_checked_file_parses on %r" % (show,))
    if st == "err":
        ok = back["status"] == "raise" and back["type"] == "ValueError"
    else:
        ok = back["status"] == "ok" and back["value"] == mev
    if not ok:
        viol(rep, "events_from_file of the %s file differs from the reader model" % stage, case,
             {"file": show, "model": tl.trim(mev if st == "ok" else "ValueError"), "impl": tl.trim(back)},
             ["C15_stage_roundtrip", "C07_read_write"], "X-pipeline/reader")
        return None
    m = tl.dec_counts(m_count)
    if m[0] == "err":
        ok = count["status"] == "raise" and count["type"] == "ValueError"
    else:
        ok = (count["status"] == "ok" and count["value"]["n_events"] == m[1]
              and tl.canon(count["value"]["cues"]) == tl.canon(m[2])
              and tl.canon(count["value"]["outcomes"]) == tl.canon(m[3]))
        if ok and st == "ok":
            dn, dc, do = direct_counts(mev)
            ok = (dn, dc, do) == (m[1], tl.canon(m[2]), tl.canon(m[3]))
    if not ok:
        viol(rep, "count.cues_outcomes of the %s file differs from the counting model / the direct count" % stage, case,
             {"file": show, "model": tl.trim(m), "impl": tl.trim(count)},
             ["C15_stage_counts", "C11_cues_outcomes"], "X-pipeline/count")
        return None
    return mev if st == "ok" else []


def run_batch(ctx, cases, label):
    """cases: pipelines whose producer part is fixed; the filter rules are drawn over the token universe of the
    MODEL's stage-1 file.  Returns the number of violations."""
    rep, rng, sc = ctx.rep, ctx.rng, ctx.scratch
    # ---- stage-1 models (before the implementation runs: the rules need the token universe)
    enc1 = []
    for c in cases:
        p = c["producer"]
        if p["kind"] == "create":
            c["enc09"] = c09.encode_case(dict(p, exists=False))
            enc1.append((901, c["enc09"]))
        else:
            shape = ["ss" if p["form"] == "strings" else "ll"] * len(p["events"])
            enc1.append(tl.enc_write(p["compatible"], p["events"], shape))
    out1 = run_models(enc1)
    spec1 = run_models([(902, c["enc09"]) for c in cases if c["producer"]["kind"] == "create"])
    k = 0
    for c, mo in zip(cases, out1):
        if c["producer"]["kind"] == "create":
            if mo != spec1[k]:
                viol(rep, "models 901 and 902 differ", c, {}, ["C09_state_machine_eq_spec"], "X-pipeline/create")
                return 1
            k += 1
            d = c09.decode_model(mo)
            if "lines" not in d:
                raise RuntimeError("creation model failed: %r" % (d,))
            c["m_lines"] = d["lines"]
            c["m_text1"] = "".join(s_of(l) + "\n" for l in d["lines"])
        else:
            if mo[0] != 0:
                raise RuntimeError("model 702 rejected a case")
            c["m_text1"] = s_of(mo[1:])
        if "filter" not in c:
            c["filter"] = gen_filter(rng, c["m_text1"])
        if c["producer"]["kind"] == "writer" and c["producer"]["compatible"]:
            c["filter"]["skip"] = True
        c.setdefault("count_jobs", rng.randint(1, 5))
        c.setdefault("pol", rng.choice([1, 2]))       # fixed below once the final events are known

    # ---- the composed model (creation producers) and the writer chain give the final events -> duplicate policy
    enc_pipe = [(1502, [c["filter"]["chunksize"]] + c10.enc_rule(c["filter"]["rc"]) + c10.enc_rule(c["filter"]["ro"])
                 + c["enc09"]) for c in cases if c["producer"]["kind"] == "create"]
    out_pipe = run_models(enc_pipe)
    k = 0
    for c in cases:
        if c["producer"]["kind"] == "create":
            c["m_pipe"] = dec_pipeline(out_pipe[k])
            k += 1
            final = c["m_pipe"]["events"] or []
        else:
            final = None
        c["m_final"] = final
    wr = [c for c in cases if c["producer"]["kind"] == "writer"]
    wout = run_models([c10.model_case(c["m_text1"], c["filter"]["rc"], c["filter"]["ro"], c["filter"]["chunksize"])
                       for c in wr])
    wtexts = []
    for c, mo in zip(wr, wout):
        d = c10.dec_text(mo)
        wtexts.append(cps(d[1]) if d[0] == "ok" else cps(c["m_text1"]))
    wev = run_models([tl.enc_read(t, 0, 1) for t in wtexts])
    for c, mo in zip(wr, wev):
        st, ev = tl.dec_events(mo)
        c["m_final"] = ev if st == "ok" else []
    for c in cases:
        if "pol_fixed" not in c:
            c["pol"] = rng.choice([1, 2]) if has_dups(c["m_final"]) else rng.choice([0, 0, 1, 2])
        if "learn" not in c:
            c["learn"] = gen_learn(rng, c["m_final"])

    # ---- the implementation: one pipeline per job, sharded over the cores
    jobs = [job_of(c) for c in cases]
    nshard = min(core.NCPU, max(1, len(jobs)))
    idx = [list(range(len(jobs)))[i::nshard] for i in range(nshard)]
    results = sc.run_workers("pipeline_worker", [{"jobs": [jobs[i] for i in ids]} for ids in idx], timeout=900,
                             hashseeds=[rng.randrange(1, 10**6) for _ in idx])
    impl = [None] * len(jobs)
    for ids, (status, res) in zip(idx, results):
        if status != "ok":
            raise RuntimeError("pipeline worker failed: %r" % (res,))
        for i, r in zip(ids, res):
            impl[i] = r
    rep.lap(label + "/run")

    # ---- models of the later stages on the REAL files
    def texts(key):
        return [r.get(key) for r in impl]
    m_in = []
    for c, r in zip(cases, impl):
        for key in ("text1", "text2"):
            t = r.get(key)
            if t is None:
                continue
            m_in.append(tl.enc_read(t, 0, 1))
            m_in.append((1101, wr_list(t) + [c["count_jobs"]]))
            m_in.append((1501, wr_list(t)))
        if r.get("text1") is not None:
            f = c["filter"]
            m_in.append(c10.model_case(s_of(r["text1"]), f["rc"], f["ro"], f["chunksize"]))
    m_out = run_models(m_in)
    ctx.cross += [(a, b) for a, b in zip(m_in, m_out) if len(a[1]) + len(b) < 1500][:40]
    pos = 0
    learn_cases = []
    for c, r in zip(cases, impl):
        p = c["producer"]
        desc = describe(c)
        n_final = len(c["m_final"])
        rep.case(desc, nontrivial=n_final >= 2)
        rep.hist("producer", p["kind"] + ("/compatible" if p.get("compatible") else ""))
        rep.hist("rule_kinds", c["filter"]["rc"][0] + "/" + c["filter"]["ro"][0])
        rep.hist("final_events", min(n_final, 60) // 5 * 5)
        rep.hist("policy", {0: "None", 1: "True", 2: "False"}[c["pol"]])
        if p["kind"] == "create":
            rep.hist("config", "%s/%s/%s" % (p["context"][:3], p["event"][:4], p["cue"][:3]))
            rep.hist("lower/dedup/allowed", "%d/%d/%s" % (p["lower"], p["dedup"], p["allowed"][0]))
        if r["producer"]["status"] != "ok":
            viol(rep, "the producer raised %s: %s" % (r["producer"].get("type"), r["producer"].get("msg")), c, {},
                 ["C15_create_output_wellformed"], "X-pipeline/producer")
            return 1
        # -- stage 1 file against its model
        t1 = r["text1"]
        mr1, mc1, mw1 = m_out[pos], m_out[pos + 1], m_out[pos + 2]
        pos += 3
        if "text2" in r:
            mr2, mc2, mw2 = m_out[pos], m_out[pos + 1], m_out[pos + 2]
            pos += 3
        mflt = m_out[pos]
        pos += 1
        if p["kind"] == "create":
            bad = c09.compare(dict(p, exists=False), {"status": "ok", "value": lines_of_text(t1)}, c["m_lines"])
            if bad:
                viol(rep, "create_event_file differs from the windowing model: " + bad, c,
                     {"model_lines": [s_of(l) for l in c["m_lines"]][:60], "impl_text": s_of(t1)[:1500]},
                     ["C09_state_machine_eq_spec", "C15_create_output_wellformed"], "X-pipeline/create")
                return 1
            v = c["m_pipe"]["verdicts"]
            if v != [1, 1, 1]:
                viol(rep, "an oracle / rule hypothesis of C15_pipeline fails on this input "
                          "(lower_ok, corpus_ok, rule_ok) = %r" % (v,), c, {},
                     ["C15_oracle_table_ok", "C15_pipeline"], "X-pipeline/hypotheses")
                return 1
        elif s_of(t1) != c["m_text1"]:
            viol(rep, "events_to_file differs from the writer model", c,
                 {"model_text": c["m_text1"][:800], "impl_text": s_of(t1)[:800]},
                 ["C07_read_write_container", "C15_stage_roundtrip_writer"], "X-pipeline/writer")
            return 1
        three_columns = p["kind"] == "writer" and p["compatible"]
        ev1 = check_text_stage(rep, c, "producer's", t1, r["back1"], r["count1"], mr1, mc1, mw1,
                               expect_wf=not three_columns)
        if ev1 is None:
            return 1
        if p["kind"] == "writer":
            want = [[cs, os_ if os_ else [[]]] for cs, os_ in p["events"]]
            if ev1 != want:
                viol(rep, "the events read from the writer's file are not the events written", c,
                     {"written": tl.trim(want), "read": tl.trim(ev1)}, ["C15_stage_roundtrip_writer"],
                     "X-pipeline/writer")
                return 1
        # -- filter
        d = c10.dec_text(mflt)
        if c["filter"].get("skip"):
            # three columns: outside the filter's input format (C15_filter_rejects_compatible_file_refuted);
            # the real filter is not run on it, the model must say so too unless the file has no event
            rep.bump("three_column_files_filter_not_run")
            if d[0] != "raise" and ev1:
                raise RuntimeError("the filter model accepts a three-column file: %r" % (s_of(t1)[:300],))
            final_ev = ev1
        elif d[0] == "raise":
            viol(rep, "the filter model refuses the file of the previous stage", c, {"file": s_of(t1)[:800]},
                 ["C15_filter_stage"], "X-pipeline/filter")
            return 1
        else:
            if r["filter"]["status"] != "ok":
                viol(rep, "filter_event_file raised %s: %s on the file of the previous stage" % (
                    r["filter"].get("type"), r["filter"].get("msg")), c, {"file": s_of(t1)[:800]},
                     ["C15_filter_stage"], "X-pipeline/filter")
                return 1
            if s_of(r["text2"]) != d[1]:
                viol(rep, "filter_event_file differs from the filter model", c,
                     {"input_file": s_of(t1)[:800], "model_text": d[1][:800], "impl_text": s_of(r["text2"])[:800]},
                     ["C10_filter_eq_filter_map", "C15_filter_stage"], "X-pipeline/filter")
                return 1
            final_ev = check_text_stage(rep, c, "filter's", r["text2"], r["back2"], r["count2"], mr2, mc2, mw2,
                                        expect_wf=True)
            if final_ev is None:
                return 1
        # -- the composed model ends with the same events
        if p["kind"] == "create":
            me = c["m_pipe"]["events"]
            same = me is not None and (final_ev == me if not p["dedup"] else
                                       [sorted_event(e) for e in final_ev] == [sorted_event(e) for e in me])
            if not same:
                viol(rep, "the real chain and the composed model pipeline_events end with different events", c,
                     {"model_events": tl.trim(me), "impl_events": tl.trim(final_ev)}, ["C15_pipeline"],
                     "X-pipeline/composed")
                return 1
        rep.coverage["traces_validated_against_impl"] += 1
        if final_ev and "learners" in r:
            learn_cases.append((c, r, final_ev))
        elif not final_ev:
            rep.bump("pipelines_ending_without_events")
    rep.lap(label + "/stages")
    return check_learners(ctx, learn_cases)


def names_of(events):
    return [[[s_of(t) for t in cs], [s_of(t) for t in os_]] for cs, os_ in events]


def check_learners(ctx, learn_cases):
    rep = ctx.rep
    mcases = []
    for c, r, ev in learn_cases:
        mcases.append({"p": c["learn"]["p"], "pol": c["pol"], "es": names_of(ev)})
    mres, enc, mouts = rwlib.model_dict_tables(mcases)
    ctx.cross += [(a, b) for a, b in zip(enc, mouts) if len(a[1]) + len(b) < 1500][:20]
    for (c, r, ev), mc, mr in zip(learn_cases, mcases, mres):
        if mr[0] == "err":
            raise RuntimeError("the harness chose remove_duplicates=None for a file with repeated tokens")
        _, mt, no, nc = mr
        es = mc["es"]
        for name, lr in r["learners"].items():
            rep.bump("learner_calls")
            rep.hist("learner", name)
            if lr["status"] != "ok":
                viol(rep, "%s does not accept the final file: %s: %s" % (name, lr.get("type"), lr.get("msg")), c,
                     {"final_events": tl.trim(es)}, ["C15_stage_dict_learn", "C15_stage_threading_learn"],
                     "X-pipeline/learn")
                return 1
            v = dict(lr["value"]["weights"])
            v["outcomes"] = [s_of(o) for o in v["outcomes"]]
            v["cues"] = [s_of(x) for x in v["cues"]]
            bad = None
            it, err = rwlib.impl_table(v, no, nc)
            if err:
                bad = err
            elif name != "dict_ndl" and (set(v["outcomes"]) != set(no.names) or set(v["cues"]) != set(nc.names)):
                bad = "labels of the result are not the tokens of the file"
            elif v.get("number_events") is not None and int(v["number_events"]) != len(es):
                bad = "number_events=%s, the file has %d events" % (v["number_events"], len(es))
            else:
                ne, nr, worst = rwlib.compare_tables(mt, it, c["learn"]["p"]["lam"], missing_is_zero=name == "dict_ndl")
                rep.bump("cells_exact", ne)
                rep.bump("cells_rounded", nr)
                if worst:
                    worst["outcome"], worst["cue"] = no.names[worst["cell"][0]], nc.names[worst["cell"][1]]
                    bad = "weight differs from the Rescorla-Wagner weights of the events read: %r" % (worst,)
            if bad:
                viol(rep, "%s on the final file: %s" % (name, bad), c,
                     {"final_events": tl.trim(es, 3000), "labels": [v["outcomes"][:30], v["cues"][:30]]},
                     ["C15_stage_dict_learn", "C15_stage_threading_learn", "C15_stage_openmp_learn", "C01_dict"],
                     "X-pipeline/learn")
                return 1
            # -- activations: sums of the RETURNED weights over the cues of every event
            ar = lr["value"].get("activation")
            if ar is None:
                continue
            if ar["status"] != "ok":
                viol(rep, "activation does not accept the final file and the weights of %s: %s: %s" % (
                    name, ar.get("type"), ar.get("msg")), c, {"final_events": tl.trim(es)}, ["C15_pipeline"],
                     "X-pipeline/activation")
                return 1
            a = ar["value"]
            aouts = [s_of(o) for o in a["outcomes"]]
            scale = max([Fraction(1), abs(Fraction(c["learn"]["p"]["lam"]))] + [abs(x) for x in it.values()])
            bad = None
            if sorted(aouts) != sorted(v["outcomes"]) or len(set(aouts)) != len(aouts):
                bad = "outcome labels of the activations are not those of the weights"
            elif any(len(row) != len(es) for row in a["values"]):
                bad = "activations have %r columns, the file has %d events" % (
                    sorted(set(len(row) for row in a["values"])), len(es))
            else:
                for i, o in enumerate(aouts):
                    oid = no.ids[o]
                    for k, (cs, _) in enumerate(es):
                        cl = list(cs) if c["pol"] == 2 else sorted(set(cs))
                        want = sum((it.get((oid, nc.ids[x]), Fraction(0)) for x in cl), Fraction(0))
                        got = rwlib.fr(a["values"][i][k])
                        if got == want:
                            rep.bump("activations_exact")
                        elif abs(got - want) <= TOL * scale:
                            rep.bump("activations_rounded")
                        else:
                            bad = "activation of outcome %r for event %d %r is %s, the sum of the returned weights is %s" % (
                                o, k, cs, float(got), float(want))
                            break
                    if bad:
                        break
            if bad:
                viol(rep, "activation under the weights of %s: %s" % (name, bad), c,
                     {"final_events": tl.trim(es, 3000)}, ["C15_pipeline"], "X-pipeline/activation")
                return 1
        if r.get("leftover"):
            rep.bump("pipelines_with_leftover_files")
    rep.lap("learners")
    return 0


# ---------------------------------------------------------------------------------------------
# the dedicated case of the known finding
# ---------------------------------------------------------------------------------------------
def nul_case(ctx):
    """a cue token ending in U+0000 through writer -> filter -> reader -> counts -> learners"""
    rep, sc = ctx.rep, ctx.scratch
    events = [[[cps("a\x00"), cps("b")], [cps("x")]], [[cps("b")], [cps("y")]], [[cps("a\x00")], [cps("x"), cps("y")]]]
    p = {"alpha": Fraction(1, 2), "beta1": Fraction(1, 4), "beta2": Fraction(1, 8), "lam": Fraction(3)}
    case = {"producer": {"kind": "writer", "events": events, "compatible": False, "form": "lists"},
            "filter": {"rc": ["all"], "ro": ["all"], "n_jobs": 1, "chunksize": 2}, "pol": 0, "pol_fixed": True,
            "count_jobs": 2,
            "learn": {"alpha": rwlib.nd(p["alpha"]), "beta1": rwlib.nd(p["beta1"]), "beta2": rwlib.nd(p["beta2"]),
                      "lam": rwlib.nd(p["lam"]), "n_jobs": 2, "n_outcomes_per_job": 1, "events_per_file": 2,
                      "activation_jobs": 1, "activation": False,
                      "learners": ["dict_ndl", "ndl:threading", "ndl:openmp"], "p": p}}
    status, res = sc.run_worker("pipeline_worker", {"jobs": [job_of(case)]})
    if status != "ok":
        raise RuntimeError("pipeline worker failed: %r" % (res,))
    r = res[0]
    rep.case(describe(case), nontrivial=True)
    want = [[cs, os_] for cs, os_ in events]
    for key in ("back1", "back2"):
        if r.get(key, {}).get("status") != "ok" or r[key]["value"] != want:
            viol(rep, "a token ending in U+0000 does not survive the text stages (%s)" % key, case,
                 {"impl": tl.trim(r.get(key))}, ["C15_stage_roundtrip"], "X-pipeline/nul")
            return 1
    es = names_of(want)
    mres, _, _ = rwlib.model_dict_tables([{"p": p, "pol": 0, "es": es}])
    _, mt, no, nc = mres[0]
    open_, _ = core.known_findings()
    listed = {key: text for (pid, key, text) in open_ if pid == "C15"}
    shows = []
    for name, lr in r["learners"].items():
        if lr["status"] != "ok":
            viol(rep, "%s raised %s: %s on a file with a token ending in U+0000" % (name, lr.get("type"), lr.get("msg")),
                 case, {}, ["C15_stage_dict_learn"], "X-pipeline/nul")
            return 1
        v = dict(lr["value"]["weights"])
        outs, cues = [s_of(o) for o in v["outcomes"]], [s_of(x) for x in v["cues"]]
        if set(cues) == set(nc.names) and set(outs) == set(no.names):
            ren = lambda t: t                                   # noqa: E731  labels intact
        elif (name != "dict_ndl" and sorted(cues) == sorted(t.rstrip("\x00") for t in nc.names)
              and sorted(outs) == sorted(t.rstrip("\x00") for t in no.names)):
            ren = lambda t: t.rstrip("\x00")                    # noqa: E731  exactly the listed defect
            shows.append(name)
        else:
            viol(rep, "%s returns labels that are neither the tokens nor the tokens without their trailing U+0000" % name,
                 case, {"labels": [outs, cues]}, ["C15_stage_threading_learn"], "X-pipeline/nul")
            return 1
        it = {}
        for i, o in enumerate(outs):
            for j, cu in enumerate(cues):
                it[(o, cu)] = rwlib.fr(v["values"][i][j])
        for (oid, cid), mv in mt.items():
            got = it.get((ren(no.names[oid]), ren(nc.names[cid])), Fraction(0) if name == "dict_ndl" else None)
            if got != mv:
                viol(rep, "%s: weight of outcome %r cue %r is %s, the rule gives %s" % (
                    name, no.names[oid], nc.names[cid], got, mv), case, {}, ["C15_stage_dict_learn"], "X-pipeline/nul")
                return 1
    rep.note("trailing_nul_label_lost_by", shows)
    if shows:
        if "trailing-nul-label" in listed:
            rep.known_finding("key=trailing-nul-label %s (label 'a\\x00' returned as 'a' by %s; weights otherwise exact)"
                              % (listed["trailing-nul-label"], ", ".join(shows)))
        else:
            viol(rep, "the label 'a\\x00' comes back as 'a' from %s and this is not a listed finding" % ", ".join(shows),
                 case, {}, ["C15_stage_threading_learn"], "X-pipeline/nul")
            return 1
    return 0


# ---------------------------------------------------------------------------------------------
def fixed_cases():
    """edge classes run in every tier"""
    base = {"kind": "create", "context": "document", "event": "consecutive_words", "event_options": [2],
            "cue": "word_to_word", "lower": True, "dedup": False, "allowed": ["all"]}
    out = []
    corpora = [
        [],                                                        # header-only file through the whole chain
        ["", " "],
        ["A b_c\td# \u0130!x  \xa0y\u2028z "],                      # the example of Props/C15.v
        ["a\x1fb c\u3000d", "\xa0e\x85 f\x0bg"],                   # white space inside words survives every stage
        ["a b " + M_LO + " c " + M_UP + M_LO + " d", "e"],
        ["x#y_z\tw", "\t#_"],
        ["\ufeffa b", "\u200bc \xadd"],
    ]
    for lines in corpora:
        for ev, eo in (("consecutive_words", [2]), ("word_to_word", [1, 1]), ("line", [])):
            for cue in c09.CUE:
                for dedup in (False, True):
                    out.append({"producer": dict(base, lines=lines, event=ev, event_options=eo, cue=cue, dedup=dedup,
                                                 context="line" if ev == "line" else "document")})
    # the filter on empty outcome fields: '' as a key of keep / remove / map
    lines = ["a b c", "d a"]
    for ro in (["keep", [""], "list"], ["remove", [""], "set"], ["map", [["", "bg"]]], ["map", [["zz", "q"]]], ["all"]):
        out.append({"producer": dict(base, lines=lines),
                    "filter": {"rc": ["remove", ["d"], "list"], "ro": ro, "n_jobs": 2, "chunksize": 1}})
    return out


def run(ctx):
    rep, rng = ctx.rep, ctx.rng
    ctx.cross = []
    bad = unicode_oracle_scan(rep)
    if bad:
        rep.violation("str.lower creates a line break for some character (or TAB/LF/CR/space is not white space): "
                      "the oracle hypothesis lower_ok of C15_create_output_wellformed fails on real Unicode",
                      {"code_points": bad[:20],
                                                                            "theorems": ["C15_create_output_wellformed"]})
        return
    rep.lap("unicode_scan")
    if nul_case(ctx):
        return
    rep.lap("nul_case")
    if run_batch(ctx, fixed_cases(), "fixed"):
        return
    rounds = 14 if ctx.thorough else 3
    cells = c09.all_cells()
    for rd in range(rounds):
        cases = []
        order = list(cells)
        rng.shuffle(order)
        for cell in order:
            o = c09.gen_options(rng, cell)
            lines = gen_corpus(rng, rep)
            prod = {"kind": "create", "eol_seed": (rng.randrange(1000) if rng.random() < 0.5 else None), "lines": lines, "context": o["context"], "event": o["event"],
                    "event_options": o["event_options"], "cue": o["cue"], "lower": o["lower"], "dedup": o["dedup"],
                    "allowed": o["allowed"]}
            cases.append({"producer": prod})
            rep.hist("lines_per_corpus", len(lines))
            if any(ch in l for l in lines for ch in INNER_WS):
                rep.bump("corpora_with_non_ascii_white_space")
            if any(ch in l for l in lines for ch in "#_\t"):
                rep.bump("corpora_with_special_symbols")
        for k in range(60):
            cases.append({"producer": {"kind": "writer", "events": writer_events(rng), "compatible": k % 5 == 4,
                                       "form": ["lists", "strings", "generator"][k % 3]}})
        if run_batch(ctx, cases, "round%d" % rd):
            return
    n, badi = core.coq_crosscheck([m for m, _ in ctx.cross], [o for _, o in ctx.cross])
    rep.note("vm_compute_crosschecked_cases", n)
    if badi:
        rep.violation("extracted model and vm_compute disagree", {"cases": badi}, no_input=True)
    rep.lap("vm_crosscheck")
