"""C05 - a failed training run raises in bounded time and never returns weights."""
import core
import faultlib
import protolib
import schedlib

RULE = ("X-fault: every learner (dict_ndl, ndl threading/openmp, wh binary-real / real-binary / real-real with openmp and "
        "numpy, dict_wh) x fault kind (duplicate cue or outcome under the default policy, malformed line with 1 or 4 fields "
        "or a non-numeric frequency, truncated gzip, cue/outcome without a vector, unusable hyper-parameter type, file-size "
        "limit installed inside the conversion job and swept over the size of the chunk files as computed by the Coq model "
        "401) x position of the faulty event (first, middle, last; thorough: every position) x n_jobs x "
        "events_per_temporary_file, plus fault-free controls and generator input. Each call runs in its own killable "
        "process under a 120 s deadline (normal 0.1-2 s); a missed deadline is confirmed by an isolated 360 s re-run. The "
        "observed class return / raise / timeout must be the model's: raise for every fault, return for the controls and "
        "for byte budgets that every chunk fits. A case is non-trivial when it injects a fault; distinct by content hash. "
        + schedlib.RULE + ". " + protolib.RULE + ".")
TRUSTED = ["multiprocessing.Pool semantics as encoded in Proto.v; Python exception propagation through sequential code",
           "'bounded time' is a step bound in the model and a wall-clock deadline in the run; OS behaviour under a full "
           "disk beyond EFBIG is not modelled"]


def run(ctx):
    rep = ctx.rep
    cases = faultlib.gen_cases(ctx.rng, ctx.thorough)
    results = faultlib.run_cases(ctx, cases)
    rep.lap("fault_runs")
    for c, (status, res, job) in zip(cases, results):
        if status == "skipped":
            rep.bump("skipped_after_timeouts")
            continue
        d = faultlib.describe(c)
        rep.case(d, nontrivial=c["expect"] == "raise")
        rep.hist("learner", d["learner"])
        rep.hist("fault", c["name"].split("@")[0].split(" ")[0].split("=")[0].split("-")[0])
        if status == "timeout":
            status, res = faultlib.confirm_timeout(ctx, job)
        if status == "timeout":
            rep.hist("outcome", "timeout")
            rep.violation("learner call blocked: no result and no exception within %d s (confirmed in isolation, %d s): %s / %s"
                          % (faultlib.DEADLINE, 3 * faultlib.DEADLINE, d["learner"], c["name"]),
                          {"correspondence": "X-fault/deadline", "theorems": ["C05_conversion_fault_raises",
                                                                              "C05_conversion_fault_terminates"], "case": d})
            break
        if status != "ok":
            rep.violation("fault worker crashed", {"correspondence": "X-fault", "case": d, "impl": str(res)[:800]})
            break
        got = "raise" if res["status"] == "raise" else "return"
        rep.hist("outcome", got + (":" + res["type"] if got == "raise" else ""))
        slow = rep.coverage.setdefault("slowest_calls", [])
        slow.append([res.get("wall_s", 0), d["learner"], c["name"]])
        slow.sort(reverse=True)
        del slow[5:]
        if c["expect"] != "any" and got != c["expect"]:
            if c["expect"] == "raise":
                what = "a faulty run RETURNED %s instead of raising (%s, %s)" % (res.get("value"), d["learner"], c["name"])
            else:
                what = "a fault-free run raised %s: %s (%s, %s)" % (res.get("type"), res.get("msg"), d["learner"], c["name"])
            rep.violation(what, {"correspondence": "X-fault", "theorems": ["C05_conversion_fault_raises",
                                                                         "C05_thread_errors_raised"], "case": d,
                                 "impl": {k: v for k, v in res.items() if k != "value"}})
            break
    rep.coverage["traces_validated_against_impl"] += len(cases)
    # ---- failing kernel calls in worker threads, under schedules chosen here, step-aligned with QueueFaults ------
    if not rep.violations:
        _, senc, smo = schedlib.run(ctx, 1500 if ctx.thorough else 200, "always")
        rep.lap("controlled_schedules")
        # ---- failing conversion jobs under chosen schedules of the submit protocol, step-aligned with Proto.pstep --
        _, penc, pmo = protolib.run(ctx, 1500 if ctx.thorough else 200, "always")
        rep.lap("controlled_protocol_schedules")
        senc, smo = senc[:40] + penc[:30], smo[:40] + pmo[:30]
        n, badi = core.coq_crosscheck(senc, smo)
        rep.note("vm_compute_crosschecked_cases", n)
        if badi:
            rep.violation("extracted model and vm_compute disagree", {"cases": badi}, no_input=True)
