"""C09 - event-file creation follows the documented windowing model."""
import os
import sys

import core
from core import wr_list, run_models

sys.path.insert(0, os.path.join(os.path.dirname(os.path.dirname(os.path.abspath(__file__))), "impl"))
from c09_allowed import allowed_table  # noqa: E402  (oracle: CPython's re / the callable itself)

RULE = ("X-window: random corpora of 0..10 lines built from word, marker and separator tokens (empty and "
        "blank lines, 0..4 document markers per line in lower and upper case, glued markers, markers whose '.' "
        "positions hold X/Y/#/_ , the mixed-case non-marker ---End.of.Document---, a marker one dash short, "
        "the special symbols # _ TAB, non-ASCII letters incl. U+0130/U+1E9E/U+01C5 whose lower() changes, "
        "non-ASCII whitespace inside and around words, windows longer than the context) x context_structure "
        "{document,line} x event_structure {consecutive_words(n=1..9), word_to_word(before,after=0..3), line} x "
        "cue_structure {trigrams,bigrams,word_to_word} x lower_case x remove_duplicates x allowed_symbols "
        "{'all', regex class strings, callables}; every configuration cell (2x3x3x2x2x3) is hit in every run; the "
        "gzip file is read back and compared line by line with model 901 (Preproc.create_event_file; exact for "
        "remove_duplicates=False, cue and outcome tokens as sorted lists for True) and model 902 (WindowSpec) "
        "must equal model 901; existing target -> OSError and unchanged file; regex class vs equivalent callable "
        "on the real code. A case is non-trivial when at least one event line is produced; distinct by content hash.")
TRUSTED = ["oracle tables computed by CPython for exactly the characters of a case: str.lower (per character; "
           "U+03A3 excluded, and every line is checked to lower character-wise), str.isspace (= the set "
           "str.strip() removes), the meaning of the regex class / callable given as allowed_symbols",
           "gzip and UTF-8 text I/O; text-mode line iteration (only \\n ends a line in the generated corpora; \\r is never generated)",
           "the re module's leftmost non-overlapping matching of the 21-character marker pattern is modelled "
           "(WindowSpec.marker_at / cut_go), not taken from CPython"]

M_LO = "---end.of.document---"
M_UP = "---END.OF.DOCUMENT---"
LETTERS = "abcABCdeXY"
NONASCII = "\xe4\xc4\xf6\xd6\xdf\xe9\xc9\u044f\u042f\u0130\u1e9e\u01c5\u03c2\u03c3\u65e5\U0001f600\u0301"
SPECIAL = "#_\t"
WS_NONASCII = ["\xa0", "\u2003", "\u3000", "\x0b", "\x0c", "\x1c", "\x85", "\u2028", "\u2029"]
PUNCT = ".,-!'"
LINEBREAKERS = "\r\n"

ALLOWED_SPECS = {
    "all": [["all"]],
    "regex": [["regex", "a-zA-Z"], ["regex", "abc"], ["regex", "a-zA-Z0-9\\-."], ["regex", "\\w"],
              ["regex", "a-z\xe4\xf6\xdf\\-."], ["regex", "\\S"], ["regex", "^a-c"]],
    "callable": [["callable", "ascii_letters"], ["callable", "isalpha"], ["callable", "isalnum_or_dash"],
                 ["callable", "not_vowel"], ["callable_set", [ord(c) for c in "abc\xe4\xdf-.\u0130"]]],
}
CTX = ["document", "line"]
EV = ["consecutive_words", "word_to_word", "line"]
CUE = ["trigrams_to_word", "bigrams_to_word", "word_to_word"]


def gen_word(rng):
    r = rng.random()
    if r < 0.55:
        pool = LETTERS
    elif r < 0.8:
        pool = LETTERS + NONASCII
    else:
        pool = LETTERS + NONASCII + PUNCT + "12"
    w = "".join(rng.choice(pool) for _ in range(rng.choice([1, 1, 2, 2, 3, 4])))
    if rng.random() < 0.06:       # inner non-ASCII whitespace stays inside a word
        w = w + rng.choice(WS_NONASCII) + rng.choice(LETTERS)
    return w


def gen_marker(rng):
    r = rng.random()
    if r < 0.3:
        return M_LO, 1
    if r < 0.55:
        return M_UP, 1
    if r < 0.7:                   # '.' matches any character (also # _ and space)
        base = rng.choice([M_LO, M_UP])
        subs = [rng.choice("XY#_ \xe9-") for _ in range(2)]
        return base.replace(".", subs[0], 1).replace(".", subs[1], 1), 1
    if r < 0.8:
        return "---End.of.Document---", 0       # mixed case: not a marker
    if r < 0.86:
        return "---end.of.document--", 0        # one dash short
    if r < 0.92:
        return "---end.of.DOCUMENT---", 0       # the two alternatives do not mix
    if r < 0.96:
        return M_LO + M_UP, 2                   # glued
    return "---end.of.document----end.of.document---", 1   # the 2nd candidate lacks a dash after the 1st match


def gen_line(rng, marker_rate):
    r = rng.random()
    if r < 0.08:
        return "", 0
    if r < 0.12:
        return rng.choice([" ", "  ", "\xa0", " \t ", "#", "_ #"]), 0
    if r < 0.12 + 0.10 * (marker_rate > 0):
        m = rng.choice([M_LO, M_UP])
        return rng.choice(["", " ", "\xa0"]) + m + rng.choice(["", " ", "\t"]), 1
    n = rng.choice([1, 1, 2, 3, 4, 5, 6, 8])
    parts, nm = [], 0
    for i in range(n):
        if rng.random() < marker_rate:
            m, k = gen_marker(rng)
            parts.append(m)
            nm += k
        else:
            parts.append(gen_word(rng))
        if i + 1 < n:
            parts.append(rng.choice([" ", " ", " ", " ", " ", "  ", "", "\t", "_", "#", "\xa0", " \u3000", "\x0b "]))
    line = "".join(parts)
    if rng.random() < 0.1:
        line = rng.choice([" ", "\xa0", "\t"]) + line + rng.choice([" ", "\u2003", " #"])
    return line, nm


def lowers_charwise(line):
    return line.lower() == "".join(ch.lower() for ch in line)


def gen_corpus(rng, rep):
    marker_rate = rng.choice([0.0, 0.15, 0.3, 0.5])
    lines, nmark, multi = [], 0, 0
    for _ in range(rng.choice([0, 1, 1, 2, 3, 4, 5, 6, 8, 10])):
        line, nm = gen_line(rng, marker_rate)
        if "\u03a3" in line or any(c in line for c in LINEBREAKERS) or not lowers_charwise(line):
            rep.bump("lines_skipped_lower_not_charwise")
            continue
        lines.append(line)
        nmark += nm
        multi += nm >= 2
    return lines, nmark, multi


def gen_options(rng, cell):
    ctx, ev, cue, lower, dedup, akind = cell
    if ev == "consecutive_words":
        eo = [rng.choice([1, 2, 3, 3, 4, 5, 9])]
    elif ev == "word_to_word":
        eo = [rng.randint(0, 3), rng.randint(0, 3)]
    else:
        eo = rng.choice([[], [3], [1, 2]])
    return {"context": ctx, "event": ev, "event_options": eo, "cue": cue, "lower": lower, "dedup": dedup,
            "allowed": rng.choice(ALLOWED_SPECS[akind])}


def all_cells():
    return [(c, e, q, lo, dd, a) for c in CTX for e in EV for q in CUE for lo in (False, True)
            for dd in (False, True) for a in ("all", "regex", "callable")]


def encode_case(case):
    """flat input of models 901/902 (see coq/theories/RunC09.v)"""
    lines = case["lines"]
    chars = set("".join(lines)) | {" "}
    closure = set(chars)
    ltab = []
    for ch in sorted(chars):
        lo = ch.lower()
        if lo != ch:
            ltab.append((ord(ch), [ord(c) for c in lo]))
            closure |= set(lo)
    spaces = [ord(c) for c in sorted(closure) if c.isspace()]
    spec = case["allowed"]
    allow = [] if spec[0] == "all" else [ord(c) for c in allowed_table(spec, closure)]
    eo = list(case["event_options"]) + [0, 0]
    if case["event"] == "line":
        eo = [0, 0]
    out = [CTX.index(case["context"]), EV.index(case["event"]), eo[0], eo[1], CUE.index(case["cue"]),
           int(case["lower"]), int(case["dedup"]), int(case["exists"]), int(spec[0] == "all")]
    out.append(len(ltab))
    for c, lo in ltab:
        out += [c] + wr_list(lo)
    out += wr_list(spaces) + wr_list(allow)
    out.append(len(lines))
    for l in lines:
        out += wr_list([ord(c) for c in l])
    return out


def decode_model(mo):
    if mo[:1] == [-1]:
        return {"error": mo[1]}
    if mo[:1] != [0]:
        return {"error": "undecodable", "raw": mo[:20]}
    r = core.Reader(mo[1:])
    n = r.int()
    return {"lines": [r.list() for _ in range(n)]}


def tokens(line):
    """(sorted cue tokens, sorted outcome tokens) of an event line given as code points, or None"""
    s = "".join(map(chr, line))
    f = s.split("\t")
    if len(f) != 2:
        return None
    return sorted(f[0].split("_")), sorted(f[1].split("_"))


def compare(case, res, mlines):
    """None when implementation output == model lines, else a description"""
    if res["status"] != "ok":
        return "implementation raised %s: %s" % (res.get("type"), res.get("msg"))
    v = res["value"]
    if not v["final_newline"]:
        return "file does not end with a newline"
    il = v["lines"]
    if len(il) != len(mlines):
        return "number of lines differs: implementation %d, model %d" % (len(il), len(mlines))
    for k, (a, b) in enumerate(zip(il, mlines)):
        if a == b:
            continue
        if case["dedup"] and k > 0:
            ta, tb = tokens(a), tokens(b)
            if ta is not None and ta == tb:
                continue
        return "line %d differs: implementation %r, model %r" % (k, "".join(map(chr, a)), "".join(map(chr, b)))
    return None


def fixed_cases():
    """the edge classes named by the property, always run"""
    base = {"context": "document", "event": "consecutive_words", "event_options": [3], "cue": "word_to_word",
            "lower": False, "dedup": False, "allowed": ["all"], "exists": False}
    corpora = [
        [],
        [""],
        ["a b c d"],
        ["a b", M_LO, "c d"],
        ["a b " + M_LO + " c " + M_UP + M_LO + " d", "e"],
        [M_LO + M_LO + M_LO],
        ["a " + M_LO + " # " + M_LO + " b"],
        ["a ---End.of.Document--- b", "c ---endXofYdocument--- d"],
        ["A_b#c\td \u0130x \u1e9e \u01c5", "x\xa0y z\u3000 w"],
        ["a", "", "b " + M_UP, "", "c"],
        ["---end#of_document--- x y", "p q"],
        ["a b c d e f g h i j"],
    ]
    out = []
    for lines in corpora:
        for ctx in CTX:
            for ev, eo in (("consecutive_words", [3]), ("consecutive_words", [12]), ("word_to_word", [2, 1]),
                           ("line", [])):
                for cue in CUE:
                    for lower, dedup, allowed in ((False, False, ["all"]), (True, True, ["regex", "a-zA-Z"]),
                                                  (True, False, ["callable", "isalpha"])):
                        out.append(dict(base, lines=lines, context=ctx, event=ev, event_options=eo, cue=cue,
                                        lower=lower, dedup=dedup, allowed=allowed))
    return out


def run_batch(ctx, cases, label):
    """implementation and both models on `cases`; returns number of violations reported"""
    rep, sc = ctx.rep, ctx.scratch
    nshard = min(core.NCPU, max(1, len(cases) // 20))
    shards = [cases[i::nshard] for i in range(nshard)]
    idx = [list(range(len(cases)))[i::nshard] for i in range(nshard)]
    payloads = []
    for s in shards:
        payloads.append({"jobs": [dict(c, lines=[[ord(ch) for ch in l] for l in c["lines"]]) for c in s]})
    results = sc.run_workers("c09_worker", payloads, timeout=900,
                             hashseeds=[ctx.rng.randrange(1, 10**6) for _ in payloads])
    impl = [None] * len(cases)
    for ids, (status, res) in zip(idx, results):
        if status != "ok":
            raise RuntimeError("c09 worker failed: %r" % (res,))
        for i, r in zip(ids, res):
            impl[i] = r
    enc = [encode_case(c) for c in cases]
    mex = run_models([(901, e) for e in enc])
    msp = run_models([(902, e) for e in enc])
    for c, r, me, ms in zip(cases, impl, mex, msp):
        d = decode_model(me)
        desc = {k: c[k] for k in ("lines", "context", "event", "event_options", "cue", "lower", "dedup",
                                  "allowed", "exists")}
        n_ev = len(d.get("lines", [])) - 1
        rep.case(desc, nontrivial=n_ev > 0)
        rep.hist("events_per_case", min(n_ev, 50) // 5 * 5 if n_ev >= 0 else "error")
        bad = None
        if me != ms:
            bad = "the loop-faithful model 901 and the documented model 902 differ (theorem C09_state_machine_eq_spec)"
        elif c["exists"]:
            if d.get("error") != 1:
                bad = "model does not refuse an existing target"
            elif not (r["status"] == "raise" and r["type"] in ("OSError", "FileExistsError") and r["unchanged"]):
                bad = "existing event file: expected OSError and an unchanged file"
        elif "lines" not in d:
            bad = "model result %r" % (d,)
        else:
            bad = compare(c, r, d["lines"])
        if bad:
            rep.violation("create_event_file differs from the windowing model (%s): %s" % (label, bad),
                          {"correspondence": "X-window", "theorems": ["C09_state_machine_eq_spec",
                                                                      "C09_no_context_bleeding",
                                                                      "C09_never_overwrites"],
                           "case": desc, "model_lines": ["".join(map(chr, l)) for l in d.get("lines", [])][:60],
                           "impl": core_trim(r)})
            return 1, enc, mex
    rep.coverage["traces_validated_against_impl"] += len(cases)
    return 0, enc, mex


def core_trim(r):
    if r.get("status") == "ok" and isinstance(r.get("value"), dict):
        return {"status": "ok", "lines": ["".join(map(chr, l)) for l in r["value"]["lines"]][:60]}
    s = repr(r)
    return s if len(s) < 1500 else s[:1500] + "..."


def witnesses(ctx):
    """the concrete inputs used in coq/theories/Props/C09.v, run on the real code:
    (1) Example C09_example_run; (2) the witness of C09_line_context_marker_not_a_boundary_refuted"""
    rep, sc = ctx.rep, ctx.scratch
    ex = {"lines": ["A b_c " + M_UP + " d ---endXofYdocument---" + M_LO, "e", "---End.of.Document--- f"],
          "context": "document", "event": "consecutive_words", "event_options": [2], "cue": "word_to_word",
          "lower": True, "dedup": False, "allowed": ["regex", "a-zA-Z\u0307"], "exists": False}
    ex_expect = ["cues\toutcomes", "a\t", "a_b\t", "b_c\t", "c\t", "d\t", "e\t", "e_end\t", "end_of\t",
                 "of_document\t", "document_f\t", "f\t"]
    wit = {"lines": ["a " + M_LO + " b"], "context": "line", "event": "consecutive_words", "event_options": [2],
           "cue": "word_to_word", "lower": False, "dedup": False, "allowed": ["all"], "exists": False}
    wit_expect = ["cues\toutcomes", "a\t", "a_" + M_LO + "\t", M_LO + "_b\t", "b\t"]
    status, res = sc.run_worker("c09_worker", {"jobs": [dict(c, lines=[[ord(ch) for ch in l] for l in c["lines"]])
                                                        for c in (ex, wit)]})
    if status != "ok":
        raise RuntimeError("c09 worker failed: %r" % (res,))
    for name, c, r, exp in (("C09_example_run", ex, res[0], ex_expect),
                            ("C09_line_context_marker_not_a_boundary_refuted", wit, res[1], wit_expect)):
        got = ["".join(map(chr, l)) for l in r["value"]["lines"]] if r["status"] == "ok" else r
        rep.case({"witness": name, "lines": c["lines"]}, nontrivial=True)
        if got != exp:
            rep.violation("the real code does not reproduce the Coq example/witness %s" % name,
                          {"correspondence": "X-window/witness", "theorems": [name], "case": c,
                           "expected_from_coq": exp, "impl": got})
            return 1
    rep.note("coq_witnesses_confirmed_on_real_code", ["C09_example_run",
                                                     "C09_line_context_marker_not_a_boundary_refuted"])
    return 0


def run(ctx):
    rep, rng = ctx.rep, ctx.rng
    thorough = ctx.thorough

    if witnesses(ctx):
        return

    # ---------------- fixed edge classes -----------------------------------------
    fc = fixed_cases()
    nv, _, _ = run_batch(ctx, fc, "fixed edge classes")
    rep.note("fixed_cases", len(fc))
    rep.lap("fixed")
    if nv:
        return

    # ---------------- random corpora x all configuration cells -------------------
    cells = all_cells()
    rounds = 60 if thorough else 12
    cases = []
    for _ in range(rounds):
        order = list(cells)
        rng.shuffle(order)
        for cell in order:
            lines, nmark, multi = gen_corpus(rng, rep)
            c = gen_options(rng, cell)
            c.update(lines=lines, exists=rng.random() < 0.04,
                     eol_seed=(rng.randrange(1000) if rng.random() < 0.5 else None))
            cases.append(c)
            rep.hist("markers_per_corpus", min(nmark, 6))
            rep.hist("lines_with_2+_markers", min(multi, 3))
            rep.hist("lines_per_corpus", len(lines))
            rep.hist("allowed", c["allowed"][0] + ":" + str(c["allowed"][1])[:16] if len(c["allowed"]) > 1 else "all")
            rep.hist("config", "%s/%s/%s" % (c["context"][:3], c["event"][:4], c["cue"][:3]))
            if c["event"] == "consecutive_words":
                nw = sum(len(l.split()) for l in lines)
                rep.hist("window_vs_words", "n>words" if c["event_options"][0] > nw else "n<=words")
            if any(len(ch.lower()) != 1 for l in lines for ch in l):
                rep.bump("corpora_with_length_changing_lower")
            if c["exists"]:
                rep.bump("existing_target_cases")
    rep.note("configuration_cells", len(cells))
    rep.note("random_cases", len(cases))
    step = 2000
    all_enc, all_out = [], []
    for i in range(0, len(cases), step):
        nv, enc, mex = run_batch(ctx, cases[i:i + step], "random corpora")
        all_enc += enc
        all_out += mex
        if nv:
            return
    rep.lap("random")

    # ---------------- regex class vs equivalent callable on the real code --------
    pairs = [(["regex", "a-zA-Z"], ["callable", "ascii_letters"]),
             (["regex", "abc\xe4\xdf\\-.\u0130"], ["callable_set", [ord(c) for c in "abc\xe4\xdf-.\u0130"]]),
             (["regex", "a-z\\-."], ["callable", "lower_dash_dot"])]
    rc = []
    for _ in range(120 if thorough else 40):
        lines, _, _ = gen_corpus(rng, rep)
        cell = rng.choice(cells)
        c = gen_options(rng, cell)
        a, b = rng.choice(pairs)
        rc.append(dict(c, lines=lines, exists=False, allowed=a))
        rc.append(dict(c, lines=lines, exists=False, allowed=b))
    sc = ctx.scratch
    status, res = sc.run_worker("c09_worker", {"jobs": [dict(c, lines=[[ord(ch) for ch in l] for l in c["lines"]])
                                                        for c in rc]}, hashseed=rng.randrange(1, 10**6))
    if status != "ok":
        raise RuntimeError("c09 worker failed: %r" % (res,))
    for k in range(0, len(rc), 2):
        ca, ra, rb = rc[k], res[k], res[k + 1]
        rep.case({"pair": [rc[k]["allowed"], rc[k + 1]["allowed"]], "lines": ca["lines"]}, nontrivial=True)
        same = ra["status"] == rb["status"] == "ok"
        if same:
            la, lb = ra["value"]["lines"], rb["value"]["lines"]
            same = len(la) == len(lb) and all(
                x == y or (ca["dedup"] and tokens(x) is not None and tokens(x) == tokens(y))
                for x, y in zip(la, lb))
        if not same:
            rep.violation("a regex class and the equivalent callable give different event files",
                          {"correspondence": "X-window/callable", "theorems": ["C09_callable_eq_regex"],
                           "case": {k2: ca[k2] for k2 in ca if k2 != "allowed"},
                           "allowed": [rc[k]["allowed"], rc[k + 1]["allowed"]],
                           "impl_regex": core_trim(ra), "impl_callable": core_trim(rb)})
            return
    rep.note("regex_vs_callable_pairs", len(rc) // 2)
    rep.lap("callable")

    # extraction vs Coq VM cross-check on a slice
    sl = [(901, e) for e in all_enc[:60]]
    n, badi = core.coq_crosscheck(sl, all_out[:60])
    rep.note("vm_compute_crosschecked_cases", n)
    if badi:
        rep.violation("extracted model and vm_compute disagree", {"cases": badi}, no_input=True)
