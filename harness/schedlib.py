"""X-sched-det: ndl.ndl(method='threading') of the scratch pyndl run under schedules chosen here (impl/sched_worker.py:
instrumented stand-ins for threading.Lock / threading.Thread / Queue / the kernel call in the namespace of pyndl.ndl,
one turn per operation, one thread running at a time) against the Coq machine QueueFaults.fstep (model 205) run on
the SAME schedule.  Compared step-aligned: the items in the order their kernel call ran, the items in the order they
were reported finished, the threads that died and the items whose call raised (in order), what the call raised,
whether every thread had ended when the schedule was used up - and the exact number of schedule entries the real
threads needed (the model must say 'all ended' for that prefix and 'not all ended' for the prefix one shorter)."""
import core
from core import run_models, wr_list, Reader

RULE = ("X-sched-det: the real worker loop of ndl.ndl(method='threading') is driven turn by turn by schedules drawn "
        "here (uniform, bursty, one thread starved, round-robin, more threads than items, entries naming ended or "
        "non-existent threads) with 1..6 threads, 1..9 work items and 0..3 items whose kernel call raises; the Coq "
        "machine QueueFaults.fstep (model 205) is run on the same schedule; execution order, completion order, dead "
        "threads, recorded errors, the raised error (the first recorded) and the number of schedule entries needed must "
        "be equal")
THEOREMS = ["C02_workers_trace_interleaving", "C02_workers_terminate", "C02_queue_never_blocks",
            "C05_threading_returns_only_if_no_failure", "C05_threading_failure_raises", "C05_threading_faults_terminate"]


def gen_schedule(rng, n_threads, n_items, kind):
    bound = 5 * n_items + 4 * n_threads + n_items + 4          # the model's bound on effective steps
    ids = list(range(n_threads))
    pre = []
    if kind == "uniform":
        pre = [rng.choice(ids) for _ in range(rng.randint(0, 3 * bound))]
    elif kind == "bursty":
        while len(pre) < 2 * bound:
            pre += [rng.choice(ids)] * rng.randint(1, 9)
    elif kind == "starve":
        victim = rng.choice(ids)
        others = [t for t in ids if t != victim] or ids
        pre = [rng.choice(others) for _ in range(rng.randint(bound // 2, 2 * bound))]
    elif kind == "alien":
        pre = [rng.choice(ids + [n_threads, n_threads + 3]) for _ in range(2 * bound)]
    elif kind == "short":
        # too short to finish: the threads must still be alive when the schedule is used up
        return [rng.choice(ids) for _ in range(rng.randint(0, max(1, n_items * 2)))]
    tail = ids * (bound + 2)                                      # round robin long enough to end every thread
    if kind == "reverse":
        tail = ids[::-1] * (bound + 2)
    return pre + tail


def gen_cases(rng, n, failures):
    cases = []
    kinds = ["uniform", "bursty", "starve", "alien", "reverse", "roundrobin", "short"]
    for k in range(n):
        n_threads = rng.choice([1, 2, 2, 3, 3, 4, 6])
        per = rng.choice([1, 1, 2, 3])
        n_items = rng.randint(1, 9)
        n_out = n_items * per - rng.randint(0, per - 1)
        fail = []
        if failures == "always" or (failures == "some" and k % 5 in (1, 3)):
            fail = sorted(rng.sample(range(n_items), min(n_items, rng.choice([1, 1, 2, 3]))))
        kind = kinds[k % len(kinds)]
        outs = ["o%d" % i for i in range(n_out)]
        events = [[["a", "b"][: 1 + (i % 2)], [o]] for i, o in enumerate(outs)] + [[["a"], outs[: min(3, n_out)]]]
        cases.append({"n_threads": n_threads, "n_outcomes_per_job": per, "n_items": n_items, "fail_items": fail,
                      "kind": kind, "schedule": gen_schedule(rng, n_threads, n_items, kind), "events": events})
    return cases


def enc(c, schedule=None, model=205):
    s = c["schedule"] if schedule is None else schedule
    return (model, [c["n_threads"], c["n_items"]] + wr_list(c["fail_items"]) + wr_list(s))


def dec(mo):
    rd = Reader(mo)
    done, blocked = rd.int(), rd.int()
    return {"done": done, "blocked": blocked, "errs": rd.list(), "dead": rd.list(), "finished": rd.list(),
            "trace": rd.list()}


def run(ctx, n, failures):
    """returns the number of cases run; reports violations through ctx.rep"""
    rep, rng, sc = ctx.rep, ctx.rng, ctx.scratch
    cases = gen_cases(rng, n, failures)
    shards = [cases[i::core.NCPU] for i in range(core.NCPU)]
    shards = [s for s in shards if s]
    jobs = [{"jobs": [{k: c[k] for k in ("events", "n_threads", "n_outcomes_per_job", "fail_items", "schedule")}
                      for c in s]} for s in shards]
    results = sc.run_workers("sched_worker", jobs, timeout=600)
    impl = [None] * len(cases)
    for si, (status, res) in enumerate(results):
        if status != "ok":
            # the process died or hung: find the job by running the shard's jobs one per process
            first = res.get("failed_job_index", 0) if isinstance(res, dict) else 0
            for j, job in enumerate(jobs[si]["jobs"]):
                if j < first:
                    continue
                st1, r1 = sc.run_worker("sched_worker", {"jobs": [job]}, timeout=120)
                if st1 != "ok":
                    c = shards[si][j]
                    d = {k: c[k] for k in ("n_threads", "n_items", "n_outcomes_per_job", "fail_items", "kind", "schedule")}
                    rep.case(d, nontrivial=True)
                    rep.violation("controlled schedule: the process running ndl.ndl(method='threading') %s" % (
                        "did not finish within 120 s" if st1 == "timeout" else "died: %s" % str(r1)[:300]),
                        {"correspondence": "X-sched-det", "theorems": THEOREMS, "case": d, "events": c["events"]},
                        no_input=True)
                    return len(cases), [], []
            raise RuntimeError("sched_worker failed: %r" % (str(res)[:800],))
        for j, r in enumerate(res):
            impl[si + j * len(shards)] = r
    def model_runs(model):
        """the machine `model` on every schedule, and on the prefixes the real threads needed / one entry fewer"""
        encs_ = [enc(c, model=model) for c in cases]
        mouts_ = run_models(encs_)
        pre_enc, pre_idx = [], []
        for i, (c, r) in enumerate(zip(cases, impl)):
            u = r["schedule_used"]
            if not r["schedule_exhausted_with_live_threads"] and not r["stuck"] and u >= 1:
                pre_enc += [enc(c, c["schedule"][:u], model), enc(c, c["schedule"][:u - 1], model)]
                pre_idx.append(i)
        pouts = run_models(pre_enc)
        prefix_ = {i: (dec(pouts[2 * k])["done"], dec(pouts[2 * k + 1])["done"]) for k, i in enumerate(pre_idx)}
        return encs_, mouts_, prefix_

    def observed(c, r):
        log = r["log"]
        over = not r["schedule_exhausted_with_live_threads"] and not r["stuck"]
        return over, {"trace": [e[2] for e in log if e[0] == "ran"],
                      "finished": [e[2] for e in log if e[0] == "finished"],
                      "errs": [e[2] for e in log if e[0] == "raised"],
                      "dead": [e[1] for e in log if e[0] == "raised"][::-1],
                      "done": 1 if over else 0}

    def align(i, c, r, m, prefix, count=False):
        """step alignment of the real threads with one machine: None or what differs"""
        log = r["log"]
        over, got = observed(c, r)
        bad = None
        if r["stuck"]:
            bad = "a worker thread did not reach its next step: %s" % r["stuck"]
        elif r["status"] != "ok" and r.get("type") in ("AttributeError", "TypeError", "NotImplementedError"):
            bad = "the call raised %s %s (the stand-ins cannot follow the code any more)" % (r.get("type"), r.get("message"))
        elif any(e[0] == "blocked_in_get" for e in log):
            bad = "a worker thread called get() on an empty queue (it would block for ever)"
        elif r["n_items"] != c["n_items"]:
            bad = "the call queued %d work items, the model has %d" % (r["n_items"], c["n_items"])
        elif m["blocked"]:
            bad = "the model reached a blocked thread (C02_queue_never_blocks says it cannot)"
        elif got["done"] == 0 and m["done"] == 0:
            if count:
                rep.bump("controlled_schedules_too_short_to_end", 1)      # both say so; the rest ran uncontrolled
        else:
            for key in ("done", "trace", "finished", "errs", "dead"):
                if got[key] != m[key]:
                    bad = "%s differs: the real threads %r, the model %r" % (
                        {"done": "whether every thread had ended when the schedule was used up",
                         "trace": "the order in which the items' kernel calls ran",
                         "finished": "the order in which the items were finished",
                         "errs": "the items whose call raised, in order",
                         "dead": "the threads that died"}[key], got[key], m[key])
                    break
            if not bad and over and m["errs"]:
                want = "injected failure in item %d" % m["errs"][0]
                if r["status"] == "raise" and want not in (r.get("message") or ""):
                    bad = "the call must raise the first recorded error (%s); it raised %s %s" % (
                        want, r.get("type"), r.get("message"))
            if not bad and over and i in prefix and prefix[i] != (1, 0):
                bad = ("the real threads needed %d schedule entries; the model says all-ended=%r for that prefix and "
                       "%r for the prefix one shorter (expected 1 and 0)" % (r["schedule_used"], prefix[i][0], prefix[i][1]))
        return bad

    encs, mouts, prefix = model_runs(205)
    first_broken, first_genuine = None, None
    for i, (c, r, mo) in enumerate(zip(cases, impl, mouts)):
        m = dec(mo)
        d = {k: c[k] for k in ("n_threads", "n_items", "n_outcomes_per_job", "fail_items", "kind", "schedule")}
        rep.case(d, nontrivial=c["n_threads"] > 1 and c["n_items"] > 1)
        rep.hist("controlled_schedule_kind", c["kind"])
        rep.hist("controlled_threads", c["n_threads"])
        rep.hist("controlled_failing_items", len(c["fail_items"]))
        rep.bump("controlled_turns", r["turns"])
        log = r["log"]
        over, got = observed(c, r)
        # (1) the property itself on the real code, whatever the model says about the steps
        prop_bad = None
        if over:
            if not c["fail_items"] and sorted(got["trace"]) != list(range(c["n_items"])):
                prop_bad = ("all threads ended but the work items were not trained exactly once each: kernel calls ran "
                            "for items %r" % (got["trace"],))
            elif not c["fail_items"] and r["status"] != "ok" and \
                    r.get("type") in ("AttributeError", "TypeError", "NotImplementedError"):
                pass        # the code asked the stand-ins for something they do not offer: see (2)
            elif not c["fail_items"] and r["status"] != "ok":
                prop_bad = "the call raised %s %s although no kernel call failed" % (r.get("type"), r.get("message"))
            elif got["errs"] and r["status"] == "ok":
                prop_bad = "the kernel call of item %d raised and the call returned weights" % got["errs"][0]
        # (2) step alignment with the machine of the lock protocol (acquire, empty(), get(), release, work)
        bad = align(i, c, r, m, prefix, count=True)
        detail = {"correspondence": "X-sched-det", "theorems": THEOREMS, "case": d, "events": c["events"],
                  "impl": {k: r[k] for k in r if k != "log"}, "impl_log": log, "model": m}
        if prop_bad and first_genuine is None:
            first_genuine = (prop_bad, detail)
            break
        if bad and first_broken is None:
            first_broken = (bad, detail)            # keep looking for an input on which the property itself fails
    protocol = "lock protocol (QueueFaults.fstep, model 205)"
    if first_broken and not first_genuine:
        # the steps are not those of the lock protocol.  The second protocol for which the same theorems are proved
        # (QueueNowait: no lock, get_nowait() until queue.Empty, one step per queue operation; C02_nowait_* / C05_nowait_*):
        # if the real threads follow THAT machine step by step on every schedule, the correspondence holds with it
        encs2, mouts2, prefix2 = model_runs(206)
        bad2 = None
        for i, (c, r, mo) in enumerate(zip(cases, impl, mouts2)):
            bad2 = align(i, c, r, dec(mo), prefix2)
            if bad2:
                first_broken[1]["lock_free_protocol_model_206"] = {"first_mismatch": bad2, "schedule": c["schedule"]}
                break
        if bad2 is None:
            first_broken = None
            protocol = "lock-free protocol (QueueNowait.nstep, model 206)"
            encs, mouts = encs2, mouts2
    rep.note("worker_protocol_the_real_threads_follow", protocol)
    if first_genuine:
        rep.violation("controlled schedule: " + first_genuine[0], first_genuine[1])
    elif first_broken:
        rep.violation("controlled schedule: " + first_broken[0], first_broken[1], no_input=True)
    rep.coverage["traces_validated_against_impl"] += len(cases)
    return len(cases), encs, mouts
