"""Harness side of the Rescorla-Wagner correspondences: case generators,
encoders for the Coq models 201 (dict_ndl) / 202 (kernel), comparison."""
import random
from fractions import Fraction

from core import wr_list, wr_events, run_models

TOL = Fraction(1, 10**9)


class Names:
    """injective name -> id map chosen by the harness"""

    def __init__(self):
        self.ids = {}
        self.names = []

    def id(self, name):
        if name not in self.ids:
            self.ids[name] = len(self.names)
            self.names.append(name)
        return self.ids[name]


def fr(x):
    """anything -> Fraction; [n, d] pairs from the workers included"""
    if isinstance(x, (list, tuple)):
        return Fraction(x[0], x[1])
    return Fraction(x)


def nd(x):
    x = Fraction(x)
    return [x.numerator, x.denominator]


def enc_dict_case(p, pol, events_ids, cells, rows, cols):
    """p: dict(alpha=Fraction or {cue_id: Fraction}, alpha_default, beta1, beta2, lam)"""
    a = p["alpha"]
    if isinstance(a, dict):
        adef = p.get("alpha_default", Fraction(0))
        tbl = a
    else:
        adef, tbl = a, {}
    out = nd(adef) + [len(tbl)]
    for k, v in tbl.items():
        out += [k] + nd(v)
    out += nd(p["beta1"]) + nd(p["beta2"]) + nd(p["lam"]) + [pol]
    out += wr_events(events_ids)
    out += [len(cells)]
    for (o, c, v) in cells:
        out += [o, c] + nd(v)
    out += wr_list(rows) + wr_list(cols)
    return (201, out)


def dec_matrix(out, rows, cols, skip=1):
    vals = out[skip:]
    assert len(vals) == 2 * len(rows) * len(cols), (len(vals), len(rows), len(cols))
    m = {}
    i = 0
    for o in rows:
        for c in cols:
            m[(o, c)] = Fraction(vals[i], vals[i + 1])
            i += 2
    return m


def enc_kernel_case(p, n_cues, all_outcomes, start, stop, files, cells, rows, cols):
    out = nd(p["alpha"]) + nd(p["beta1"]) + nd(p["beta2"]) + nd(p["lam"]) + [n_cues]
    out += wr_list(all_outcomes) + [start, stop]
    out += [len(files)]
    for f in files:
        out += wr_list(f)
    out += [len(cells)]
    for (o, c, v) in cells:
        out += [o, c] + nd(v)
    out += wr_list(rows) + wr_list(cols)
    return (202, out)


def compare_tables(model, impl, scale_hint=1, missing_is_zero=False):
    """model, impl: {(o,c): Fraction}.  Returns (n_exact, n_rounded, first mismatch or None)."""
    scale = max([abs(Fraction(scale_hint)), 1] + [abs(v) for v in model.values()])
    n_exact = n_round = 0
    worst = None
    for k, mv in model.items():
        iv = impl.get(k, Fraction(0) if missing_is_zero else None)
        if iv is None:
            return n_exact, n_round, {"cell": list(k), "model": str(mv), "impl": "missing"}
        if iv == mv:
            n_exact += 1
        elif abs(iv - mv) <= TOL * scale:
            n_round += 1
        else:
            if worst is None:
                worst = {"cell": list(k), "model": float(mv), "impl": float(iv),
                         "model_exact": str(mv) if len(str(mv)) < 200 else None}
    return n_exact, n_round, worst


def impl_table(res_value, names_o, names_c):
    """worker DataArray/WeightDict cells -> {(oid, cid): Fraction}; unknown labels -> error string"""
    tbl = {}
    outs, cues = res_value["outcomes"], res_value["cues"]
    if len(set(outs)) != len(outs) or len(set(cues)) != len(cues):
        return None, "duplicate labels in result: outcomes=%r cues=%r" % (outs[:20], cues[:20])
    for i, o in enumerate(outs):
        if o not in names_o.ids:
            return None, "result has an outcome label that is not in the events: %r" % (o,)
        for j, c in enumerate(cues):
            if c not in names_c.ids:
                return None, "result has a cue label that is not in the events: %r" % (c,)
            tbl[(names_o.ids[o], names_c.ids[c])] = fr(res_value["values"][i][j])
    return tbl, None


# ---------------------------------------------------------------------------
# generators
# ---------------------------------------------------------------------------
DY_ALPHA = [Fraction(1, 2), Fraction(1, 4), Fraction(1, 8), Fraction(3, 8), Fraction(1, 16)]
DY_BETA = [Fraction(1, 2), Fraction(1, 4), Fraction(1, 8), Fraction(3, 16), Fraction(1, 32)]
DY_LAM = [Fraction(3), Fraction(2), Fraction(1, 2), Fraction(5), Fraction(-1), Fraction(3, 4), Fraction(7, 4)]


def gen_params(rng, per_cue=False, cue_names=()):
    b1 = rng.choice(DY_BETA)
    b2 = rng.choice([b for b in DY_BETA if b != b1])
    lam = rng.choice(DY_LAM)
    if per_cue:
        alpha = {c: rng.choice(DY_ALPHA) for c in cue_names}
    else:
        alpha = rng.choice(DY_ALPHA)
    return {"alpha": alpha, "beta1": b1, "beta2": b2, "lam": lam}


def gen_events(rng, n_events, n_cue_alpha=8, n_out_alpha=5, max_cues=6, max_outs=3,
               dups=False, late=True, outcome_less=True, file_form=False, shared=False):
    """name-level events.  Classes: repeated cues/outcomes (dups), cues and outcomes
    first seen in the last third (late), outcome-less events.  With file_form an
    outcome-less event has the single outcome '' (what the text format yields).
    With shared, cues and outcomes are words of ONE vocabulary (a word can be a cue in one
    event and an outcome in another, as in real corpora); the outcome that is first seen late
    is a word that has been a cue from the start."""
    cues = ["c%d" % i for i in range(n_cue_alpha)]
    outs = ["o%d" % i for i in range(n_out_alpha)]
    if shared:
        cues = ["w%d" % i for i in range(n_cue_alpha)]
        # outcomes: some words that are cues too, some that are outcomes only; the late one (last) is cue w0
        outs = (["w%d" % (n_cue_alpha - 1 - i) if i % 2 == 0 else "v%d" % i for i in range(n_out_alpha - 1)] + ["w0"]) \
            if n_out_alpha > 1 else ["w0"]
    late_c, late_o = cues[-2:], outs[-1:]
    es = []
    for k in range(n_events):
        in_last_third = k >= (2 * n_events) // 3
        pool_c = cues if (in_last_third or not late or len(cues) < 4) else cues[:-2]
        pool_o = outs if (in_last_third or not late or len(outs) < 2) else outs[:-1]
        nc = rng.randint(1, max_cues)
        cs = [rng.choice(pool_c) for _ in range(nc)]
        if not dups:
            cs = list(dict.fromkeys(cs))
        no = rng.randint(0, max_outs) if outcome_less else rng.randint(1, max_outs)
        os_ = [rng.choice(pool_o) for _ in range(no)]
        if not dups:
            os_ = list(dict.fromkeys(os_))
        if dups and rng.random() < 0.5:
            cs.append(cs[0])
            if os_ and rng.random() < 0.5:
                os_.append(os_[0])
        if file_form and not os_:
            os_ = [""]
        es.append([cs, os_])
    return es


def has_dups(es):
    return any(len(set(cs)) != len(cs) or len(set(os_)) != len(os_) for cs, os_ in es)


def label_sets(es, extra_o=(), extra_c=()):
    no, nc = Names(), Names()
    for o in extra_o:
        no.id(o)
    for c in extra_c:
        nc.id(c)
    for cs, os_ in es:
        for c in cs:
            nc.id(c)
        for o in os_:
            no.id(o)
    return no, nc


def events_to_ids(es, no, nc):
    return [([nc.id(c) for c in cs], [no.id(o) for o in os_]) for cs, os_ in es]


def model_dict_tables(cases):
    """cases: list of dict(p, pol, es, cells(optional name-level {(o,c):Fraction}))
    -> list of ('err', code) | ('ok', table, names_o, names_c)"""
    enc = []
    meta = []
    for cs in cases:
        cells0 = cs.get("cells") or {}
        no, nc = label_sets(cs["es"], [o for (o, _) in cells0], [c for (_, c) in cells0])
        ids = events_to_ids(cs["es"], no, nc)
        p = dict(cs["p"])
        if isinstance(p["alpha"], dict):
            p["alpha"] = {nc.id(c): v for c, v in p["alpha"].items()}
        rows = list(range(len(no.names)))
        cols = list(range(len(nc.names)))
        cells = [(no.ids[o], nc.ids[c], v) for (o, c), v in cells0.items()]
        enc.append(enc_dict_case(p, cs["pol"], ids, cells, rows, cols))
        meta.append((no, nc, rows, cols))
    outs = run_models(enc)
    res = []
    for o, (no, nc, rows, cols) in zip(outs, meta):
        if o[0] == -1:
            res.append(("err", o[1], no, nc))
        elif o[0] == 0:
            res.append(("ok", dec_matrix(o, rows, cols), no, nc))
        else:
            raise RuntimeError("bad model output %r" % (o[:5],))
    return res, enc, outs
