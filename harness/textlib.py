"""Harness side shared by C07 (text event files) and C11 (counting):
generators of Unicode tokens / event rows / corpora, flat encoders for the Coq
models 701/702 (RunC07.v) and 1101..1104 (RunC11.v), decoders, sharding."""
import core
from core import wr_list, Reader

TAB, LF, CR, US = 9, 10, 13, 95

# characters that CPython treats as white space / line boundaries in *other* APIs
# (str.split(), str.splitlines(), str.strip()); none of them is special for the
# event file reader, all of them are white space for words_symbols
ODD_SPACES = [0x20, 0x0b, 0x0c, 0x1c, 0x1d, 0x1e, 0x1f, 0x85, 0xa0, 0x1680, 0x2003, 0x2028, 0x2029,
              0x202f, 0x205f, 0x3000]
SPECIALS = [0x00, 0x7f, 0x22, 0x27, 0x5c, 0x23, 0x2d, 0x2b, 0x31, 0x30, 0xfeff, 0xad, 0x200b, 0x200d, 0x301,
            0xfffd, 0xffff, 0x10ffff, 0x10000, 0xe000, 0xd7ff]
ASCII = [ord(c) for c in "abcdeXYZ019"]
FORBIDDEN = {TAB, LF, CR, US}


def rand_cp(rng):
    """a random scalar value (any plane, no surrogates)"""
    r = rng.random()
    if r < 0.35:
        c = rng.randrange(0x20, 0x3000)
    elif r < 0.6:
        c = rng.randrange(0x3000, 0x10000)
    elif r < 0.9:
        c = rng.randrange(0x10000, 0x110000)
    else:
        c = rng.randrange(0, 0x100)
    if 0xD800 <= c <= 0xDFFF:
        c = 0x4e00 + (c & 0xff)
    return c


def clean_cp(rng, no_nul=False):
    while True:
        r = rng.random()
        if r < 0.35:
            c = rng.choice(ASCII)
        elif r < 0.5:
            c = rng.choice(ODD_SPACES)
        elif r < 0.62:
            c = rng.choice(SPECIALS)
        else:
            c = rand_cp(rng)
        if c in FORBIDDEN or (no_nul and c == 0):
            continue
        return c


def token(rng, no_nul=False, max_len=5):
    n = rng.choice([1, 1, 2, 3, rng.randint(1, max_len)])
    t = [clean_cp(rng, no_nul) for _ in range(n)]
    if rng.random() < 0.25:
        t = [rng.choice(ODD_SPACES)] + t          # leading white space (strip() would eat it)
    if rng.random() < 0.25:
        t = t + [rng.choice(ODD_SPACES)]
    return t


def token_list(rng, lo, hi, pool=None, no_nul=False, dups=True):
    n = rng.randint(lo, hi)
    out = []
    for _ in range(n):
        t = rng.choice(pool) if pool and rng.random() < 0.6 else token(rng, no_nul)
        if dups or t not in out:
            out.append(t)
    return out or [token(rng, no_nul)]


def clean_events(rng, n_events, no_nul=False, max_cues=4, max_outs=3, dups=True):
    """events inside the quantifier of C07: >= 1 cue, >= 1 outcome, non-empty tokens without
    tab/LF/CR/underscore; tokens recur between events and (with dups) inside a list"""
    cpool = [token(rng, no_nul) for _ in range(rng.randint(2, 6))]
    opool = [token(rng, no_nul) for _ in range(rng.randint(1, 4))]
    return [[token_list(rng, 1, max_cues, cpool, no_nul, dups), token_list(rng, 1, max_outs, opool, no_nul, dups)]
            for _ in range(n_events)]


def is_clean_token(t):
    return len(t) > 0 and not (set(t) & FORBIDDEN)


def is_clean_event(e):
    return all(len(col) > 0 and all(is_clean_token(t) for t in col) for col in e)


def join(sep, ws):
    out = []
    for i, w in enumerate(ws):
        if i:
            out.append(sep)
        out += w
    return out


GOOD_FREQ = ["0", "1", "2", "3", "4", "5", "1", "2", "0", "+2", "-1", "007", "10"]
# strings that CPython's int() rejects and that lie in the modelled (ASCII) fragment's complement
BAD_FREQ = ["", "x", "1.5", "1e3", "0x1", "--1", "+", "-", "1 2", "1-", "½", "1+1"]
HEADER = [ord(c) for c in "cues\toutcomes"]
HEADER3 = [ord(c) for c in "Cues\tOutcomes\tFrequency"]


def row_line(e, freq=None):
    """one hand-written line (without terminator): cues TAB outcomes [TAB freq]"""
    line = join(US, e[0]) + [TAB] + join(US, e[1])
    if freq is not None:
        line += [TAB] + [ord(c) for c in freq]
    return line


def file_text(lines, header=HEADER, eol=(LF,), last_eol=True):
    """header + lines; eol may be a list of terminators used cyclically"""
    out = list(header) + [LF]
    for i, ln in enumerate(lines):
        out += ln
        if i < len(lines) - 1 or last_eol:
            t = eol[i % len(eol)]
            out += list(t) if isinstance(t, (list, tuple)) else [t]
    return out


# ---------------------------------------------------------------------------
# flat encodings (mirror of RunC07.v / RunC11.v)
# ---------------------------------------------------------------------------
def wr_strs(ws):
    out = [len(ws)]
    for w in ws:
        out += wr_list(w)
    return out


def enc_read(text, start, step):
    return (701, wr_list(text) + [start, step])


def enc_write(compatible, events, shape):
    out = [1 if compatible else 0, len(events)]
    for (cs, os_), sh in zip(events, shape):
        for col, s in ((cs, sh[0]), (os_, sh[1])):
            if s == "l":
                out += [0] + wr_strs(col)
            else:
                out += [1] + wr_list(join(US, col))
    return (702, out)


def rd_strs(r):
    return [r.list() for _ in range(r.int())]


def dec_events(out):
    """701 -> ('ok', events) | ('err', code)"""
    if out[0] == -1:
        return "err", out[1]
    if out[0] != 0:
        raise RuntimeError("bad model output %r" % (out[:6],))
    r = Reader(out[1:])
    return "ok", [[rd_strs(r), rd_strs(r)] for _ in range(r.int())]


def rd_counter(r):
    return [[r.list(), r.int()] for _ in range(r.int())]


def dec_counts(out):
    """1101/1104 -> ('ok', n_events, cues, outcomes) | ('err', code)"""
    if out[0] == -1:
        return ("err", out[1])
    if out[0] != 0:
        raise RuntimeError("bad model output %r" % (out[:6],))
    r = Reader(out[1:])
    n = r.int()
    return ("ok", n, rd_counter(r), rd_counter(r))


def dec_words(out):
    if out[0] != 0:
        raise RuntimeError("bad model output %r" % (out[:6],))
    r = Reader(out[1:])
    return rd_counter(r), rd_counter(r)


def canon(items):
    """Counter items -> sorted list (order of a Counter is not part of the properties)"""
    return sorted([list(k), int(v)] for k, v in items)


def show(cps):
    return "".join(map(chr, cps))


# ---------------------------------------------------------------------------
def run_jobs(sc, jobs, n=None, timeout=900, script="textfmt_worker"):
    n = n or core.NCPU
    idx = list(range(len(jobs)))
    sh = [(idx[i::n], jobs[i::n]) for i in range(n) if jobs[i::n]]
    results = sc.run_workers(script, [{"jobs": js} for _, js in sh], timeout=timeout)
    out = [None] * len(jobs)
    for (ids, _), (status, res) in zip(sh, results):
        if status != "ok":
            for i in ids:
                out[i] = {"status": status, "detail": res}
        else:
            for i, r in zip(ids, res):
                out[i] = r
    return out


def trim(r, n=1500):
    s = repr(r)
    return s if len(s) < n else s[:n] + "..."
