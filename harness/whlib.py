"""Harness side of the Widrow-Hoff correspondences (C08, C14, C03-WH)."""
from fractions import Fraction

import rwlib
from core import run_models, wr_list
from props.c06 import py_encode

FL = {"b2r": 0, "r2b": 1, "r2r": 2}


def gen_table(rng, names, n_dims, lim=3, prefix="d"):
    rows = list(names)
    rng.shuffle(rows)                               # table row order != any other order
    return {"rows": rows, "dims": ["%s%d" % (prefix, i) for i in range(n_dims)],
            "values": [[rng.randint(-lim, lim) for _ in range(n_dims)] for _ in rows]}


def permute_table(rng, tbl, columns=True):
    """the same labelled vectors with rows and dimension columns in another order"""
    ri = list(range(len(tbl["rows"])))
    ci = list(range(len(tbl["dims"])))
    rng.shuffle(ri)
    if columns:
        rng.shuffle(ci)
    return {"rows": [tbl["rows"][i] for i in ri], "dims": [tbl["dims"][j] for j in ci],
            "values": [[tbl["values"][i][j] for j in ci] for i in ri]}


def onehot_table(rng, names, prefix, extra_dims=0):
    """one-hot vectors: name i -> unit vector of a dimension chosen by a random injective map"""
    rows = list(names)
    rng.shuffle(rows)
    n_dims = len(names) + extra_dims
    dims_of = rng.sample(range(n_dims), len(names))
    dimnames = ["%s%d" % (prefix, i) for i in range(n_dims)]
    values = [[1 if k == dims_of[i] else 0 for k in range(n_dims)] for i in range(len(rows))]
    return {"rows": rows, "dims": dimnames, "values": values}, {rows[i]: dimnames[dims_of[i]] for i in range(len(rows))}


def gen_wh_events(rng, n, cues, outs, max_c=3, max_o=2, dups=False, single=False):
    es = []
    for _ in range(n):
        if single:
            es.append([[rng.choice(cues)], [rng.choice(outs)]])
            continue
        cs = rng.sample(cues, min(len(cues), rng.randint(1, max_c)))
        os_ = rng.sample(outs, min(len(outs), rng.randint(1, max_o)))
        if dups and rng.random() < 0.5:
            cs.append(cs[0])
        if dups and rng.random() < 0.3:
            os_.append(os_[0])
        es.append([cs, os_])
    return es


def model_case(fl, eta, events, cv, ov, pol=2, b1=None, b2=None, la=None):
    """build the flat input of model 801 at the level of names and return (enc, row_labels, col_labels)"""
    cue_names, out_names = rwlib.Names(), rwlib.Names()
    if cv is not None:
        for r in cv["rows"]:
            cue_names.id(r)                 # id = row index in the table, as wh.wh numbers them
    if ov is not None:
        for r in ov["rows"]:
            out_names.id(r)
    evs = []
    for cs, os_ in events:
        if pol == 1:
            cs, os_ = sorted(set(cs)), sorted(set(os_))
        evs.append(([cue_names.id(c) for c in cs], [out_names.id(o) for o in os_]))
    n_cdims = len(cv["dims"]) if cv is not None else 0
    n_odims = len(ov["dims"]) if ov is not None else 0
    if fl == "b2r":
        row_labels, col_labels = list(ov["dims"]), None            # cols: cue names (known after the events)
        n_cols = len(cue_names.names)
        col_labels = list(cue_names.names)
    elif fl == "r2b":
        row_labels, col_labels = list(out_names.names), list(cv["dims"])
        n_cols = n_cdims
    else:
        row_labels, col_labels = list(ov["dims"]), list(cv["dims"])
        n_cols = n_cdims
    n_rows = len(row_labels)
    b1 = eta if b1 is None else b1
    b2 = eta if b2 is None else b2
    la = Fraction(1) if la is None else la
    out = [FL[fl]] + rwlib.nd(eta) + rwlib.nd(b1) + rwlib.nd(b2) + rwlib.nd(la) + [n_cols, n_cdims, n_odims, n_rows]
    for tbl in (cv, ov):
        cells = []
        if tbl is not None:
            for i, row in enumerate(tbl["values"]):
                for k, v in enumerate(row):
                    if v != 0:
                        cells += [i, k] + rwlib.nd(Fraction(v))
        out += [len(cells) // 4] + cells
    files = [py_encode(evs)]
    out += [len(files)]
    for f in files:
        out += wr_list(f)
    out += [0]                                      # no initial cells
    rows, cols = list(range(n_rows)), list(range(len(col_labels)))
    out += wr_list(rows) + wr_list(cols)
    return (801, out), row_labels, col_labels


def model_tables(cases):
    """cases: list of dicts(fl, eta, events, cv, ov, pol) -> list of {(row_label, col_label): Fraction}"""
    encs, metas = [], []
    for c in cases:
        enc, rl, cl = model_case(c["fl"], c["eta"], c["events"], c.get("cv"), c.get("ov"), c.get("pol", 2))
        encs.append(enc)
        metas.append((rl, cl))
    outs = run_models(encs)
    res = []
    for o, (rl, cl) in zip(outs, metas):
        if o[0] != 0:
            raise RuntimeError("WH model error %r" % (o[:4],))
        vals = o[1:]
        t, i = {}, 0
        for r in rl:
            for c in cl:
                t[(r, c)] = Fraction(vals[i], vals[i + 1])
                i += 2
        res.append(t)
    return res, encs, outs


def impl_table(v):
    return {(o, c): rwlib.fr(v["values"][i][j]) for i, o in enumerate(v["outcomes"]) for j, c in enumerate(v["cues"])}
