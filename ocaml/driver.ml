(* Driver for the extracted models.  Protocol (stdin, one case per line):
     <model id> <int> <int> ...        integers in decimal, optional leading '-'
   answer (stdout, one line per case): the integers of [run_model id input].
   Conversions between OCaml strings and Coq's binary [Z] are done here through
   zarith (I/O only; all model arithmetic is the extracted Coq code). *)
module BZ = Z   (* zarith *)
open Models

let rec pos_of_z (n : BZ.t) : positive =
  if BZ.equal n BZ.one then XH
  else if BZ.is_even n then XO (pos_of_z (BZ.shift_right n 1))
  else XI (pos_of_z (BZ.shift_right n 1))

let coqz_of_z (n : BZ.t) : z =
  if BZ.sign n = 0 then Z0
  else if BZ.sign n > 0 then Zpos (pos_of_z n)
  else Zneg (pos_of_z (BZ.neg n))

let rec z_of_pos (p : positive) : BZ.t =
  match p with
  | XH -> BZ.one
  | XO q -> BZ.shift_left (z_of_pos q) 1
  | XI q -> BZ.succ (BZ.shift_left (z_of_pos q) 1)

let z_of_coqz (n : z) : BZ.t =
  match n with
  | Z0 -> BZ.zero
  | Zpos p -> z_of_pos p
  | Zneg p -> BZ.neg (z_of_pos p)

let () =
  let buf = Buffer.create 65536 in
  try
    while true do
      let line = input_line stdin in
      let toks = List.filter (fun s -> s <> "") (String.split_on_char ' ' line) in
      match toks with
      | [] -> print_newline ()
      | id :: args ->
        let inp = List.rev (List.rev_map (fun s -> coqz_of_z (BZ.of_string s)) args) in
        let out = run_model (coqz_of_z (BZ.of_string id)) inp in
        Buffer.clear buf;
        List.iter (fun x -> Buffer.add_string buf (BZ.to_string (z_of_coqz x)); Buffer.add_char buf ' ') out;
        print_endline (Buffer.contents buf)
    done
  with End_of_file -> ()
