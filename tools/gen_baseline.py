#!/usr/bin/env python3
"""Write harness/source_baseline.json: normalised content hashes of /repo's HEAD pyndl sources (comments, docstrings and
blank lines do not count).  Run after every commit to /repo.  The checks only read this file."""
import json, os, subprocess, sys, tempfile, shutil
sys.path.insert(0, os.path.join(os.path.dirname(os.path.abspath(__file__)), "..", "harness"))
import core
d = tempfile.mkdtemp(prefix="baseline.", dir="/var/tmp")
try:
    subprocess.run("git -C /repo archive HEAD pyndl | tar -x -C %s" % d, shell=True, check=True)
    head = subprocess.run(["git", "-C", "/repo", "rev-parse", "HEAD"], capture_output=True, text=True).stdout.strip()
    out = {"repo_head": head, "files": core.source_fingerprint(os.path.join(d, "pyndl"))}
    with open(os.path.join(core.VERIF, "harness", "source_baseline.json"), "w") as f:
        json.dump(out, f, indent=1, sort_keys=True)
    print("baseline written for", head, len(out["files"]), "files")
finally:
    shutil.rmtree(d, ignore_errors=True)
