#!/usr/bin/env python3
"""Run every stored seeded change against the check of its property (scratch copy of /repo, never /repo itself)
and record which are caught:  tools/run_seeds.py [names...]   -> /verif/seeded/results.json"""
import json, os, subprocess, sys, time
V = "/verif"
names = sys.argv[1:] or sorted(d for d in os.listdir(V + "/seeded") if os.path.isdir(os.path.join(V, "seeded", d)))
path = os.environ.get("PV_RESULTS", V + "/seeded/results.json")
results = json.load(open(path)) if os.path.exists(path) else {}
for name in names:
    meta = json.load(open(os.path.join(V, "seeded", name, "meta.json")))
    prop = meta["property"]
    if not os.path.exists(os.path.join(V, "harness", "props", prop.lower() + ".py")):
        print(name, "no check yet")
        continue
    t0 = time.time()
    r = subprocess.run([V + "/tools/seedtest.sh", os.path.join(V, "seeded", name, "patch.diff"), prop],
                       capture_output=True, text=True)
    out = r.stdout
    caught = "VIOLATION property=%s" % prop in out
    results[name] = {"property": prop, "caught_by_quick_check": caught,
                     "first_violation": next((l for l in out.splitlines() if l.startswith("violation:")), "")[:300],
                     "wall_s": round(time.time() - t0, 1)}
    print(name, "CAUGHT" if caught else "MISSED", results[name]["first_violation"][:150])
    json.dump(results, open(path, "w"), indent=1, sort_keys=True)
