#!/bin/bash
# usage: tools/soak.sh "<quick seeds>" "<thorough seeds>"   (run from a checkout of /verif; builds first)
cd "$(dirname "$0")/.."
./setup.sh >/dev/null 2>&1
EV=$(mktemp -d /var/tmp/ev_soak.XXXXXX)
for sd in $1; do
  for i in $(seq -w 1 20); do
    id=C$i; s=$(date +%s)
    out=$(VERIF_SEED=$sd PV_EVIDENCE_DIR=$EV ./check $id --tier quick 2>&1); rc=$?
    echo "quick seed=$sd $id rc=$rc $(( $(date +%s) - s ))s $(echo "$out" | grep -E 'VIOLATION|^violation|KNOWN' | head -3 | cut -c1-300)"
  done
done
for sd in $2; do
  for i in $(seq -w 1 20); do
    id=C$i; s=$(date +%s)
    out=$(VERIF_SEED=$sd PV_EVIDENCE_DIR=$EV ./check $id --tier thorough 2>&1); rc=$?
    echo "thorough seed=$sd $id rc=$rc $(( $(date +%s) - s ))s $(echo "$out" | grep -E 'VIOLATION|^violation|KNOWN' | head -3 | cut -c1-300)"
  done
done
rm -rf "$EV"
echo SOAK-DONE
