#!/usr/bin/env python3
"""py2coq: fail-closed translator from a small fragment of Python to MiniPy terms (coq/theories/MiniPy.v).

usage: py2coq.py <pyndl package dir> <output .v file>

For every entry of TARGETS the named function is located in the package's *current* source, parsed with `ast`, and its
body (or the configured statement range of it) is mapped node by node onto MiniPy constructors.  Anything that is not
listed below raises Unsupported: no term is written for that target and the generated file records the reason in
`<name>_translated : bool := false`, so the theorems about that term stop compiling (src/SrcProofs.v refers to the term).

What is accepted (everything else is refused):
  statements   x = e (single Name target, e not a bare Name: no aliasing of list objects) | x op= e | x, y = e |
               x.append(e) | del x[i] | if/else | while (no else, no break/continue) | return e |
               raise ValueError(...) / AssertionError(...) | assert e | pass |
               print(...), sys.stdout.flush()  -> SSkip (standard output is not modelled) | docstring expressions
  expressions  Name | int/bool/None/str constants | + - * / // % | comparisons (chains only over Names/constants) |
               and / or / not | len(e) | len(set(e)) | e[i] | e[a:b] (both bounds given, no step) | (a, b) | list() | []
"""
import ast
import json
import os
import sys


class Unsupported(Exception):
    pass


BINOPS = {ast.Add: "BAdd", ast.Sub: "BSub", ast.Mult: "BMul", ast.Div: "BDiv", ast.FloorDiv: "BFloorDiv", ast.Mod: "BMod"}
CMPOPS = {ast.Lt: "CLt", ast.LtE: "CLe", ast.Gt: "CGt", ast.GtE: "CGe", ast.Eq: "CEq", ast.NotEq: "CNe"}
EXNS = {"ValueError": "ExValue", "AssertionError": "ExAssert", "IndexError": "ExIndex", "TypeError": "ExType",
        "KeyError": "ExKey", "ZeroDivisionError": "ExZeroDiv"}


class Tr:
    def __init__(self, params):
        self.vars = {}
        for p in params:
            self.var(p)

    def var(self, name):
        if name not in self.vars:
            self.vars[name] = len(self.vars)
        return self.vars[name]

    # ---- expressions
    def const(self, v):
        if v is None:
            return "VNone"
        if v is True or v is False:
            return "(VBool %s)" % ("true" if v else "false")
        if isinstance(v, int):
            return "(VInt (%d)%%Z)" % v
        if isinstance(v, str):
            return "(VStr [%s]%%Z)" % "; ".join(str(ord(c)) for c in v)
        raise Unsupported("constant %r" % (v,))

    def simple(self, e):
        return isinstance(e, (ast.Name, ast.Constant))

    def expr(self, e):
        if isinstance(e, ast.Name):
            if not isinstance(e.ctx, ast.Load):
                raise Unsupported("name in store context inside an expression")
            return "(EVar %d)" % self.var(e.id)
        if isinstance(e, ast.Constant):
            return "(EConst %s)" % self.const(e.value)
        if isinstance(e, ast.BinOp) and type(e.op) in BINOPS:
            return "(EBin %s %s %s)" % (BINOPS[type(e.op)], self.expr(e.left), self.expr(e.right))
        if isinstance(e, ast.UnaryOp) and isinstance(e.op, ast.Not):
            return "(ENot %s)" % self.expr(e.operand)
        if isinstance(e, ast.UnaryOp) and isinstance(e.op, ast.USub) and isinstance(e.operand, ast.Constant) \
                and isinstance(e.operand.value, int) and not isinstance(e.operand.value, bool):
            return "(EConst (VInt (%d)%%Z))" % (-e.operand.value)
        if isinstance(e, ast.BoolOp):
            op = "EAnd" if isinstance(e.op, ast.And) else "EOr"
            parts = [self.expr(v) for v in e.values]
            out = parts[-1]
            for p in reversed(parts[:-1]):
                out = "(%s %s %s)" % (op, p, out)
            return out
        if isinstance(e, ast.Compare):
            if any(type(o) not in CMPOPS for o in e.ops):
                raise Unsupported("comparison operator %s" % ast.dump(e))
            operands = [e.left] + list(e.comparators)
            if len(operands) > 2 and not all(self.simple(x) for x in operands[1:-1]):
                raise Unsupported("comparison chain over a non-trivial middle operand")
            parts = ["(ECmp %s %s %s)" % (CMPOPS[type(o)], self.expr(a), self.expr(b))
                     for o, a, b in zip(e.ops, operands, operands[1:])]
            out = parts[-1]
            for p in reversed(parts[:-1]):
                out = "(EAnd %s %s)" % (p, out)
            return out
        if isinstance(e, ast.Call) and isinstance(e.func, ast.Name) and not e.keywords:
            if e.func.id == "len" and len(e.args) == 1:
                a = e.args[0]
                if isinstance(a, ast.Call) and isinstance(a.func, ast.Name) and a.func.id == "set" \
                        and len(a.args) == 1 and not a.keywords:
                    return "(ELenSet %s)" % self.expr(a.args[0])
                return "(ELen %s)" % self.expr(a)
            if e.func.id == "list" and not e.args:
                return "EEmptyList"
        if isinstance(e, ast.List) and not e.elts:
            return "EEmptyList"
        if isinstance(e, ast.Tuple) and len(e.elts) == 2 and isinstance(e.ctx, ast.Load):
            return "(ETuple2 %s %s)" % (self.expr(e.elts[0]), self.expr(e.elts[1]))
        if isinstance(e, ast.Subscript) and isinstance(e.ctx, ast.Load):
            s = e.slice
            if isinstance(s, ast.Slice):
                if s.step is not None or s.lower is None or s.upper is None:
                    raise Unsupported("slice with a step or an omitted bound")
                return "(ESlice %s %s %s)" % (self.expr(e.value), self.expr(s.lower), self.expr(s.upper))
            return "(EIndex %s %s)" % (self.expr(e.value), self.expr(s))
        raise Unsupported("expression %s" % ast.dump(e)[:200])

    # ---- statements
    def is_output(self, s):
        """print(...) and sys.stdout.flush(): standard output is not modelled"""
        if not (isinstance(s, ast.Expr) and isinstance(s.value, ast.Call)):
            return False
        f = s.value.func
        if isinstance(f, ast.Name) and f.id == "print":
            return True
        return (isinstance(f, ast.Attribute) and f.attr == "flush" and isinstance(f.value, ast.Attribute)
                and f.value.attr == "stdout" and isinstance(f.value.value, ast.Name) and f.value.value.id == "sys")

    def block(self, stmts):
        parts = [self.stmt(s) for s in stmts]
        if not parts:
            return "SSkip"
        out = parts[-1]
        for p in reversed(parts[:-1]):
            out = "(SSeq %s\n %s)" % (p, out)
        return out

    def stmt(self, s):
        if isinstance(s, ast.Pass) or self.is_output(s):
            return "SSkip"
        if isinstance(s, ast.Expr) and isinstance(s.value, ast.Constant) and isinstance(s.value.value, str):
            return "SSkip"                                   # docstring
        if isinstance(s, ast.Assign) and len(s.targets) == 1:
            t = s.targets[0]
            if isinstance(t, ast.Name):
                if isinstance(s.value, ast.Name):
                    raise Unsupported("x = y between names (possible aliasing of a list object)")
                return "(SAssign %d %s)" % (self.var(t.id), self.expr(s.value))
            if isinstance(t, ast.Tuple) and len(t.elts) == 2 and all(isinstance(x, ast.Name) for x in t.elts):
                return "(SUnpack2 %d %d %s)" % (self.var(t.elts[0].id), self.var(t.elts[1].id), self.expr(s.value))
        if isinstance(s, ast.AugAssign) and isinstance(s.target, ast.Name) and type(s.op) in BINOPS:
            return "(SAug %d %s %s)" % (self.var(s.target.id), BINOPS[type(s.op)], self.expr(s.value))
        if isinstance(s, ast.Expr) and isinstance(s.value, ast.Call):
            f = s.value.func
            if isinstance(f, ast.Attribute) and f.attr == "append" and isinstance(f.value, ast.Name) \
                    and len(s.value.args) == 1 and not s.value.keywords:
                a = s.value.args[0]
                if isinstance(a, ast.Name):
                    raise Unsupported("append of a bare name (possible aliasing of a list object)")
                return "(SAppend %d %s)" % (self.var(f.value.id), self.expr(a))
        if isinstance(s, ast.Delete) and len(s.targets) == 1:
            t = s.targets[0]
            if isinstance(t, ast.Subscript) and isinstance(t.value, ast.Name) and not isinstance(t.slice, ast.Slice):
                return "(SDel %d %s)" % (self.var(t.value.id), self.expr(t.slice))
        if isinstance(s, ast.If):
            return "(SIf %s\n %s\n %s)" % (self.expr(s.test), self.block(s.body), self.block(s.orelse))
        if isinstance(s, ast.While) and not s.orelse:
            for n in ast.walk(s):
                if isinstance(n, (ast.Break, ast.Continue)):
                    raise Unsupported("break / continue")
            return "(SWhile %s\n %s)" % (self.expr(s.test), self.block(s.body))
        if isinstance(s, ast.Return) and s.value is not None:
            return "(SReturn %s)" % self.expr(s.value)
        if isinstance(s, ast.Raise) and s.cause is None and s.exc is not None:
            x = s.exc
            if isinstance(x, ast.Call):
                x = x.func
            if isinstance(x, ast.Name) and x.id in EXNS:
                return "(SRaise %s)" % EXNS[x.id]
        if isinstance(s, ast.Assert):
            return "(SAssert %s)" % self.expr(s.test)
        raise Unsupported("statement %s" % ast.dump(s)[:200])


def find_function(tree, name):
    for node in tree.body:
        if isinstance(node, ast.FunctionDef) and node.name == name:
            return node
    raise Unsupported("function %s not found" % name)


def select_fragment(fn, first_assign_to, through_first):
    """the statements of fn's body from the first `first_assign_to = ...` through the first following statement of
    type `through_first` (both at the top level of the body)"""
    body = fn.body
    start = None
    for i, s in enumerate(body):
        if isinstance(s, ast.Assign) and len(s.targets) == 1 and isinstance(s.targets[0], ast.Name) \
                and s.targets[0].id == first_assign_to:
            start = i
            break
    if start is None:
        raise Unsupported("no top-level assignment to %s" % first_assign_to)
    for j in range(start, len(body)):
        if isinstance(body[j], through_first):
            return body[start:j + 1], body[j + 1:]
    raise Unsupported("no %s after the assignment" % through_first.__name__)


# name of the generated term -> (file, function, how to select, parameter names in slot order)
TARGETS = [
    {"term": "slice_list_src", "file": "ndl.py", "function": "slice_list", "whole": True},
    {"term": "bandsample_loop_src", "file": "preprocess.py", "function": "bandsample", "whole": False,
     "first_assign_to": "accumulator", "through_first": ast.While, "params": ["population", "step", "verbose"],
     # the fragment's result is read from this local; what follows the fragment must not touch the sample except
     # through the two statements checked below
     "result": "sample"},
]


def translate_target(pkg, t):
    with open(os.path.join(pkg, t["file"]), encoding="utf-8") as f:
        src = f.read()
    fn = find_function(ast.parse(src), t["function"])
    a = fn.args
    if a.vararg or a.kwarg or a.posonlyargs:
        raise Unsupported("*args / **kwargs / positional-only parameters")
    if t.get("whole"):
        if a.kwonlyargs or a.defaults:
            raise Unsupported("defaults / keyword-only parameters")
        params = [x.arg for x in a.args]
        stmts = fn.body
    else:
        params = t["params"]
        stmts, rest = select_fragment(fn, t["first_assign_to"], t["through_first"])
        # fail closed on the tail: after the loop the function may only build the Counter from `sample` and return it
        tail = [ast.dump(s) for s in rest]
        expect = [ast.dump(s) for s in ast.parse(
            "sample = collections.Counter({key: value for key, value in sample})\nreturn sample").body]
        if tail != expect:
            raise Unsupported("statements after the sampling loop are not `sample = Counter({...}); return sample`")
    tr = Tr(params)
    body = tr.block(stmts)
    return params, tr.vars, body


# ---------------------------------------------------------------------------------------------------------------
# Binary event format: the constants and the word codec, read from the source text (group "Fmt", property C06).
# Fail closed: every name must be bound exactly once at module level by an integer expression over literals and
# earlier names (+ - *), never rebound anywhere else in the file; to_bytes / to_integer must have exactly the shape
# `return x.to_bytes(W, ORDER)` / `return int.from_bytes(x, ORDER)`.
FMT_NAMES = ["MAGIC_NUMBER", "CURRENT_VERSION_WITH_FREQ", "CURRENT_VERSION"]
FMT_ERRS = ["NO_ERROR", "MAGIC_NUMBER_DOES_NOT_MATCH", "VERSION_NUMBER_DOES_NOT_MATCH", "INITIAL_ERROR_CODE"]


def _int_expr(e, env):
    if isinstance(e, ast.Constant) and isinstance(e.value, int) and not isinstance(e.value, bool):
        return e.value
    if isinstance(e, ast.Name) and e.id in env:
        return env[e.id]
    if isinstance(e, ast.BinOp) and isinstance(e.op, (ast.Add, ast.Sub, ast.Mult)):
        a, b = _int_expr(e.left, env), _int_expr(e.right, env)
        return a + b if isinstance(e.op, ast.Add) else a - b if isinstance(e.op, ast.Sub) else a * b
    raise Unsupported("constant expression %s" % ast.dump(e)[:80])


def _body_without_docstring(fn):
    body = list(fn.body)
    if body and isinstance(body[0], ast.Expr) and isinstance(body[0].value, ast.Constant) \
            and isinstance(body[0].value.value, str):
        body = body[1:]
    return body


def _order(e):
    if isinstance(e, ast.Constant) and e.value in ("little", "big"):
        return e.value == "little"
    raise Unsupported("byte order is not a 'little' / 'big' literal")


def translate_fmt(pkg):
    import re
    with open(os.path.join(pkg, "preprocess.py"), encoding="utf-8") as f:
        tree = ast.parse(f.read())
    env = {}
    for st in tree.body:
        if isinstance(st, ast.Assign) and len(st.targets) == 1 and isinstance(st.targets[0], ast.Name) \
                and st.targets[0].id in FMT_NAMES:
            if st.targets[0].id in env:
                raise Unsupported("%s is bound twice" % st.targets[0].id)
            env[st.targets[0].id] = _int_expr(st.value, env)
    for n in FMT_NAMES:
        if n not in env:
            raise Unsupported("preprocess.%s is not a module-level integer constant" % n)
    stores = [x.id for x in ast.walk(tree) if isinstance(x, ast.Name) and isinstance(x.ctx, (ast.Store, ast.Del))
              and x.id in FMT_NAMES]
    globs = [n for x in ast.walk(tree) if isinstance(x, (ast.Global, ast.Nonlocal)) for n in x.names if n in FMT_NAMES]
    if len(stores) != len(FMT_NAMES) or globs:
        raise Unsupported("a format constant of preprocess.py is rebound somewhere (%s %s)" % (stores, globs))
    out = {"py_" + k: v for k, v in env.items()}
    # to_bytes
    fn = find_function(tree, "to_bytes")
    a = fn.args
    if a.vararg or a.kwarg or a.kwonlyargs or a.defaults or a.posonlyargs or len(a.args) != 1 or fn.decorator_list:
        raise Unsupported("to_bytes: signature")
    body = _body_without_docstring(fn)
    if len(body) != 1 or not isinstance(body[0], ast.Return):
        raise Unsupported("to_bytes: body is not a single return")
    c = body[0].value
    if not (isinstance(c, ast.Call) and isinstance(c.func, ast.Attribute) and c.func.attr == "to_bytes"
            and isinstance(c.func.value, ast.Name) and c.func.value.id == a.args[0].arg
            and len(c.args) == 2 and not c.keywords):
        raise Unsupported("to_bytes: not `return x.to_bytes(W, ORDER)`")
    out["to_bytes_width"] = _int_expr(c.args[0], {})
    out["to_bytes_little"] = _order(c.args[1])
    # to_integer
    fn = find_function(tree, "to_integer")
    a = fn.args
    if a.vararg or a.kwarg or a.kwonlyargs or a.defaults or a.posonlyargs or len(a.args) != 1 or fn.decorator_list:
        raise Unsupported("to_integer: signature")
    body = _body_without_docstring(fn)
    if len(body) != 1 or not isinstance(body[0], ast.Return):
        raise Unsupported("to_integer: body is not a single return")
    c = body[0].value
    if not (isinstance(c, ast.Call) and isinstance(c.func, ast.Attribute) and c.func.attr == "from_bytes"
            and isinstance(c.func.value, ast.Name) and c.func.value.id == "int"
            and len(c.args) == 2 and not c.keywords
            and isinstance(c.args[0], ast.Name) and c.args[0].id == a.args[0].arg):
        raise Unsupported("to_integer: not `return int.from_bytes(x, ORDER)`")
    out["to_integer_little"] = _order(c.args[1])
    # neither helper nor `int` may be rebound in the module
    for x in ast.walk(tree):
        if isinstance(x, ast.Name) and isinstance(x.ctx, ast.Store) and x.id in ("to_bytes", "to_integer", "int"):
            raise Unsupported("%s is rebound in preprocess.py" % x.id)
    if sum(1 for x in ast.walk(tree) if isinstance(x, (ast.FunctionDef, ast.AsyncFunctionDef, ast.ClassDef))
           and x.name in ("to_bytes", "to_integer")) != 2:
        raise Unsupported("to_bytes / to_integer are defined more than once")
    # the compiled kernels: ndl_parallel.pyx (Cython text, line grammar)
    with open(os.path.join(pkg, "ndl_parallel.pyx"), encoding="utf-8") as f:
        pyx = f.read()
    kenv = {}
    for n in FMT_NAMES:
        ms = re.findall(r"^cdef unsigned int %s = ([0-9A-Za-z_+ ]+?)\s*(?:#.*)?$" % n, pyx, re.M)
        if len(ms) != 1 or len(re.findall(r"\b%s\s*(?:[-+*/|&^]|<<|>>)?=(?!=)" % n, pyx)) != 1:
            raise Unsupported("ndl_parallel.pyx: %s is not bound exactly once by `cdef unsigned int %s = <expr>`" % (n, n))
        kenv[n] = _int_expr(ast.parse(ms[0].strip(), mode="eval").body, kenv) % 2 ** 32   # unsigned int
    out.update({"k_" + k: v for k, v in kenv.items()})
    # the error codes the kernels return: error_codes.pxd
    with open(os.path.join(pkg, "error_codes.pxd"), encoding="utf-8") as f:
        pxd = f.read()
    m = re.search(r"^cdef enum ErrorCode:\n((?:[ \t]+\S.*\n)+)", pxd, re.M)
    if not m or len(re.findall(r"^cdef enum", pxd, re.M)) != 1:
        raise Unsupported("error_codes.pxd: not exactly one `cdef enum ErrorCode:` block")
    enum = {}
    for ln in m.group(1).splitlines():
        mm = re.fullmatch(r"\s+([A-Z_]+) = ([0-9]+)\s*", ln)
        if not mm or mm.group(1) in enum:
            raise Unsupported("error_codes.pxd: enum line %r" % ln)
        enum[mm.group(1)] = int(mm.group(2))
    for n in FMT_ERRS:
        if n not in enum:
            raise Unsupported("error_codes.pxd: %s missing" % n)
        out["err_" + n] = enum[n]
    return out


def translate_fmt_shape(pkg):
    """Structure of the readers (counts and widths; group "FmtShape", lenient: harmless rewrites change it)."""
    import re
    with open(os.path.join(pkg, "preprocess.py"), encoding="utf-8") as f:
        tree = ast.parse(f.read())
    with open(os.path.join(pkg, "ndl_parallel.pyx"), encoding="utf-8") as f:
        pyx = f.read()
    out = {}
    # kernels: every function that opens a chunk must check the header in the canonical way right after fopen
    code = "\n".join(ln for ln in (re.sub(r"#.*$", "", l).rstrip() for l in pyx.splitlines()) if ln.strip()) + "\n"
    hdr = re.compile(
        r"^(?P<i>[ \t]+)binary_file = fopen\(binary_file_path, \"rb\"\)\n"
        r"(?P=i)read_next_int\(&magic_number, binary_file\)\n"
        r"(?P=i)if (?:not magic_number == MAGIC_NUMBER|magic_number != MAGIC_NUMBER):\n"
        r"(?P=i)[ \t]+fclose\(binary_file\)\n"
        r"(?P=i)[ \t]+return MAGIC_NUMBER_DOES_NOT_MATCH\n"
        r"(?P=i)read_next_int\(&version, binary_file\)\n"
        r"(?:(?P=i)if version == CURRENT_VERSION:\n(?P=i)[ \t]+pass\n(?P=i)else:\n"
        r"|(?P=i)if (?:not version == CURRENT_VERSION|version != CURRENT_VERSION):\n)"
        r"(?P=i)[ \t]+fclose\(binary_file\)\n"
        r"(?P=i)[ \t]+return VERSION_NUMBER_DOES_NOT_MATCH\n", re.M)
    out["k_kernels"] = len(re.findall(r"^[ \t]+\w+ = fopen\(", code, re.M))
    out["k_canonical_header_checks"] = len(hdr.findall(code))
    # the names may not be assigned again after the check (`version = CURRENT_VERSION`, `magic_number = ...`)
    if re.search(r"^[ \t]+(?:magic_number|version)\s*=(?!=)", code, re.M):
        raise Unsupported("ndl_parallel.pyx: magic_number / version is assigned by a statement")
    freads = re.findall(r"\bfread\(\s*\w+\s*,\s*([^,]+?)\s*,", code)
    out["k_fread_widths"] = [_int_expr(ast.parse(w, mode="eval").body, {}) for w in freads]
    caps = re.findall(r"^[ \t]+cdef unsigned int max_number_of_(?:cues|outcomes) = ([0-9]+)$", code, re.M)
    if len(caps) != len(re.findall(r"^[ \t]+cdef [^\n]*\bmax_number_of_(?:cues|outcomes)\b", code, re.M)):
        raise Unsupported("ndl_parallel.pyx: an id buffer capacity is not declared as `cdef unsigned int max_number_of_* = <int>`")
    out["k_initial_caps"] = [int(c) for c in caps]
    # Python reader: widths of every read() in read_binary_file, canonical header decision
    fn = find_function(tree, "read_binary_file")
    widths = []
    for x in ast.walk(fn):
        if isinstance(x, ast.Call) and isinstance(x.func, ast.Attribute) and x.func.attr == "read":
            if len(x.args) != 1 or x.keywords:
                raise Unsupported("read_binary_file: read() without an explicit size")
            widths.append(_int_expr(x.args[0], {}))
    out["py_read_widths"] = widths
    canon = [ast.dump(st) for st in ast.parse(
        "magic_number = to_integer(binary_file.read(4))\n"
        "if not magic_number == MAGIC_NUMBER:\n    raise ValueError('Header does not match the magic number')\n"
        "version = to_integer(binary_file.read(4))\n"
        "if version == CURRENT_VERSION:\n    pass\nelse:\n    raise ValueError('Version is incorrectly specified')\n").body]

    def unmsg(d):   # the text of the messages and the read widths (reported above) do not matter
        return re.sub(r"Constant\(value=(?:'[^']*'|[0-9]+)\)", "Constant()", d)
    withs = [x for x in fn.body if isinstance(x, ast.With)]
    body = _body_without_docstring(fn)
    ok = len(body) == 1 and len(withs) == 1 and [unmsg(ast.dump(st)) for st in withs[0].body[:4]] == [unmsg(c) for c in canon]
    stores = [x.id for x in ast.walk(fn) if isinstance(x, ast.Name) and isinstance(x.ctx, ast.Store)
              and x.id in ("magic_number", "version")]
    out["py_reader_header_canonical"] = bool(ok and sorted(stores) == ["magic_number", "version"])
    fn = find_function(tree, "to_bytes")
    c = _body_without_docstring(fn)[0].value
    out["shape_to_bytes_width"] = _int_expr(c.args[0], {})
    return out



def translate_names(pkg):
    """Names of the temporary chunk files (group "Names", C04, lenient): the template the conversion writes them with,
    the pattern the clean-up looks for, and the slice every learner parses the number back from before sorting."""
    import re
    with open(os.path.join(pkg, "preprocess.py"), encoding="utf-8") as f:
        tree = ast.parse(f.read())
    fn = find_function(tree, "create_binary_event_files")
    tmpl = [x.left.value for x in ast.walk(fn) if isinstance(x, ast.BinOp) and isinstance(x.op, ast.Mod)
            and isinstance(x.left, ast.Constant) and isinstance(x.left.value, str) and x.left.value.endswith(".dat")]
    if len(tmpl) != 1:
        raise Unsupported("create_binary_event_files: not exactly one '<prefix>%i<suffix>.dat' template")
    m = re.fullmatch(r"([^%]*)%[id]([^%]*)", tmpl[0])
    if not m:
        raise Unsupported("chunk name template %r" % tmpl[0])
    pats = [x.left.value for x in ast.walk(fn) if isinstance(x, ast.Compare) and len(x.ops) == 1
            and isinstance(x.ops[0], ast.In) and isinstance(x.left, ast.Constant) and isinstance(x.left.value, str)]
    if len(pats) != 1:
        raise Unsupported("create_binary_event_files: not exactly one `'<pattern>' in file_name` clean-up test")
    lowers, uppers = [], []
    conversions = 0
    for fname in ("ndl.py", "wh.py"):
        with open(os.path.join(pkg, fname), encoding="utf-8") as f:
            t = ast.parse(f.read())
        for x in ast.walk(t):
            if isinstance(x, ast.Call) and ((isinstance(x.func, ast.Attribute) and x.func.attr == "create_binary_event_files")
                                            or (isinstance(x.func, ast.Name) and x.func.id == "create_binary_event_files")):
                conversions += 1
            if isinstance(x, ast.Call) and isinstance(x.func, ast.Attribute) and x.func.attr in ("sort",) \
                    and isinstance(x.func.value, ast.Name) and x.func.value.id == "binary_files":
                want = ast.parse("binary_files.sort(key=lambda filename: int(os.path.basename(filename)[0:-1]))").body[0].value
                def shape(d):
                    return re.sub(r"Constant\(value=[0-9]+\)", "Constant()", ast.dump(d))
                if shape(x) != shape(want):
                    raise Unsupported("%s: binary_files.sort(...) is not sort(key=lambda filename: int(os.path.basename(filename)[A:-B]))" % fname)
                sl = x.keywords[0].value.body.args[0].slice
                lowers.append(sl.lower.value)
                uppers.append(sl.upper.operand.value)
            elif isinstance(x, ast.Call) and isinstance(x.func, ast.Name) and x.func.id == "sorted" and x.args \
                    and isinstance(x.args[0], ast.Name) and x.args[0].id == "binary_files":
                raise Unsupported("%s: sorted(binary_files, ...)" % fname)
    return {"names_prefix": [ord(c) for c in m.group(1)], "names_suffix": [ord(c) for c in m.group(2)],
            "names_cleanup": [ord(c) for c in pats[0]], "names_sort_lower": lowers, "names_sort_upper_neg": uppers,
            "names_conversions": conversions}


def emit_fmt(pkg, lines, report):
    for name, fun, what in (("fmt_consts_src", translate_fmt, "binary format constants"),
                            ("fmt_shape_src", translate_fmt_shape, "structure of the chunk readers"),
                            ("chunk_names_src", translate_names, "names of the temporary chunk files")):
        try:
            c = fun(pkg)
        except (Unsupported, SyntaxError, OSError, KeyError, IndexError, AttributeError) as ex:
            report[name] = {"translated": False, "reason": str(ex)}
            lines += ["(* %s: NOT TRANSLATED: %s *)" % (name, str(ex).replace("*)", "* )")),
                      "Definition %s_translated : bool := false." % name, ""]
            continue
        report[name] = {"translated": True, "constants": c}
        lines.append("(* preprocess.py / ndl_parallel.pyx / error_codes.pxd -> %s *)" % what)
        for k, v in c.items():
            if isinstance(v, bool):
                lines.append("Definition fmt_%s_src : bool := %s." % (k, "true" if v else "false"))
            elif isinstance(v, list):
                lines.append("Definition fmt_%s_src : list Z := [%s]%%Z." % (k, "; ".join("(%d)" % x for x in v)))
            else:
                lines.append("Definition fmt_%s_src : Z := (%d)%%Z." % (k, v))
        lines += ["Definition %s_translated : bool := true." % name, ""]


def main():
    pkg, out = sys.argv[1], sys.argv[2]
    lines = ["(* GENERATED by tools/py2coq.py from the source under %s -- do not edit *)" % pkg,
             "From Coq Require Import ZArith List.", "From PV Require Import MiniPy.", "Import ListNotations.",
             "Local Open Scope nat_scope.", ""]
    report = {}
    for t in TARGETS:
        name = t["term"]
        try:
            params, vars_, body = translate_target(pkg, t)
        except (Unsupported, SyntaxError, OSError) as ex:
            report[name] = {"translated": False, "reason": str(ex)}
            lines += ["(* %s: NOT TRANSLATED: %s *)" % (name, str(ex).replace("*)", "* )")),
                      "Definition %s_translated : bool := false." % name, ""]
            continue
        report[name] = {"translated": True, "variables": vars_, "params": params}
        lines.append("(* %s.%s -> %s; variables: %s *)" % (t["file"], t["function"], name,
                                                           ", ".join("%s=%d" % kv for kv in vars_.items())))
        for v, k in vars_.items():
            lines.append("Definition %s_v_%s : nat := %d." % (name, v.strip("_") or "underscore", k))
        lines.append("Definition %s : pyfun := {| f_params := [%s]; f_body :=\n %s |}." % (
            name, "; ".join(str(vars_[p]) for p in params), body))
        lines += ["Definition %s_translated : bool := true." % name, ""]
    emit_fmt(pkg, lines, report)
    with open(out, "w") as f:
        f.write("\n".join(lines) + "\n")
    json.dump(report, sys.stdout)
    print()


if __name__ == "__main__":
    main()
