#!/usr/bin/env python3
"""py2coq: fail-closed translator from a small fragment of Python to MiniPy terms (coq/theories/MiniPy.v).

usage: py2coq.py <pyndl package dir> <output .v file>

For every entry of TARGETS the named function is located in the package's *current* source, parsed with `ast`, and its
body (or the configured statement range of it) is mapped node by node onto MiniPy constructors.  Anything that is not
listed below raises Unsupported: no term is written for that target and the generated file records the reason in
`<name>_translated : bool := false`, so the theorems about that term stop compiling (src/SrcProofs.v refers to the term).

What is accepted (everything else is refused):
  statements   x = e (single Name target, e not a bare Name: no aliasing of list objects) | x op= e | x, y = e |
               x.append(e) | del x[i] | if/else | while (no else, no break/continue) | return e |
               raise ValueError(...) / AssertionError(...) | assert e | pass |
               print(...), sys.stdout.flush()  -> SSkip (standard output is not modelled) | docstring expressions
  expressions  Name | int/bool/None/str constants | + - * / // % | comparisons (chains only over Names/constants) |
               and / or / not | len(e) | len(set(e)) | e[i] | e[a:b] (both bounds given, no step) | (a, b) | list() | []
"""
import ast
import json
import os
import sys


class Unsupported(Exception):
    pass


BINOPS = {ast.Add: "BAdd", ast.Sub: "BSub", ast.Mult: "BMul", ast.Div: "BDiv", ast.FloorDiv: "BFloorDiv", ast.Mod: "BMod"}
CMPOPS = {ast.Lt: "CLt", ast.LtE: "CLe", ast.Gt: "CGt", ast.GtE: "CGe", ast.Eq: "CEq", ast.NotEq: "CNe"}
EXNS = {"ValueError": "ExValue", "AssertionError": "ExAssert", "IndexError": "ExIndex", "TypeError": "ExType",
        "KeyError": "ExKey", "ZeroDivisionError": "ExZeroDiv"}


class Tr:
    def __init__(self, params):
        self.vars = {}
        for p in params:
            self.var(p)

    def var(self, name):
        if name not in self.vars:
            self.vars[name] = len(self.vars)
        return self.vars[name]

    # ---- expressions
    def const(self, v):
        if v is None:
            return "VNone"
        if v is True or v is False:
            return "(VBool %s)" % ("true" if v else "false")
        if isinstance(v, int):
            return "(VInt (%d)%%Z)" % v
        if isinstance(v, str):
            return "(VStr [%s]%%Z)" % "; ".join(str(ord(c)) for c in v)
        raise Unsupported("constant %r" % (v,))

    def simple(self, e):
        return isinstance(e, (ast.Name, ast.Constant))

    def expr(self, e):
        if isinstance(e, ast.Name):
            if not isinstance(e.ctx, ast.Load):
                raise Unsupported("name in store context inside an expression")
            return "(EVar %d)" % self.var(e.id)
        if isinstance(e, ast.Constant):
            return "(EConst %s)" % self.const(e.value)
        if isinstance(e, ast.BinOp) and type(e.op) in BINOPS:
            return "(EBin %s %s %s)" % (BINOPS[type(e.op)], self.expr(e.left), self.expr(e.right))
        if isinstance(e, ast.UnaryOp) and isinstance(e.op, ast.Not):
            return "(ENot %s)" % self.expr(e.operand)
        if isinstance(e, ast.UnaryOp) and isinstance(e.op, ast.USub) and isinstance(e.operand, ast.Constant) \
                and isinstance(e.operand.value, int) and not isinstance(e.operand.value, bool):
            return "(EConst (VInt (%d)%%Z))" % (-e.operand.value)
        if isinstance(e, ast.BoolOp):
            op = "EAnd" if isinstance(e.op, ast.And) else "EOr"
            parts = [self.expr(v) for v in e.values]
            out = parts[-1]
            for p in reversed(parts[:-1]):
                out = "(%s %s %s)" % (op, p, out)
            return out
        if isinstance(e, ast.Compare):
            if any(type(o) not in CMPOPS for o in e.ops):
                raise Unsupported("comparison operator %s" % ast.dump(e))
            operands = [e.left] + list(e.comparators)
            if len(operands) > 2 and not all(self.simple(x) for x in operands[1:-1]):
                raise Unsupported("comparison chain over a non-trivial middle operand")
            parts = ["(ECmp %s %s %s)" % (CMPOPS[type(o)], self.expr(a), self.expr(b))
                     for o, a, b in zip(e.ops, operands, operands[1:])]
            out = parts[-1]
            for p in reversed(parts[:-1]):
                out = "(EAnd %s %s)" % (p, out)
            return out
        if isinstance(e, ast.Call) and isinstance(e.func, ast.Name) and not e.keywords:
            if e.func.id == "len" and len(e.args) == 1:
                a = e.args[0]
                if isinstance(a, ast.Call) and isinstance(a.func, ast.Name) and a.func.id == "set" \
                        and len(a.args) == 1 and not a.keywords:
                    return "(ELenSet %s)" % self.expr(a.args[0])
                return "(ELen %s)" % self.expr(a)
            if e.func.id == "list" and not e.args:
                return "EEmptyList"
        if isinstance(e, ast.List) and not e.elts:
            return "EEmptyList"
        if isinstance(e, ast.Tuple) and len(e.elts) == 2 and isinstance(e.ctx, ast.Load):
            return "(ETuple2 %s %s)" % (self.expr(e.elts[0]), self.expr(e.elts[1]))
        if isinstance(e, ast.Subscript) and isinstance(e.ctx, ast.Load):
            s = e.slice
            if isinstance(s, ast.Slice):
                if s.step is not None or s.lower is None or s.upper is None:
                    raise Unsupported("slice with a step or an omitted bound")
                return "(ESlice %s %s %s)" % (self.expr(e.value), self.expr(s.lower), self.expr(s.upper))
            return "(EIndex %s %s)" % (self.expr(e.value), self.expr(s))
        raise Unsupported("expression %s" % ast.dump(e)[:200])

    # ---- statements
    def is_output(self, s):
        """print(...) and sys.stdout.flush(): standard output is not modelled"""
        if not (isinstance(s, ast.Expr) and isinstance(s.value, ast.Call)):
            return False
        f = s.value.func
        if isinstance(f, ast.Name) and f.id == "print":
            return True
        return (isinstance(f, ast.Attribute) and f.attr == "flush" and isinstance(f.value, ast.Attribute)
                and f.value.attr == "stdout" and isinstance(f.value.value, ast.Name) and f.value.value.id == "sys")

    def block(self, stmts):
        parts = [self.stmt(s) for s in stmts]
        if not parts:
            return "SSkip"
        out = parts[-1]
        for p in reversed(parts[:-1]):
            out = "(SSeq %s\n %s)" % (p, out)
        return out

    def stmt(self, s):
        if isinstance(s, ast.Pass) or self.is_output(s):
            return "SSkip"
        if isinstance(s, ast.Expr) and isinstance(s.value, ast.Constant) and isinstance(s.value.value, str):
            return "SSkip"                                   # docstring
        if isinstance(s, ast.Assign) and len(s.targets) == 1:
            t = s.targets[0]
            if isinstance(t, ast.Name):
                if isinstance(s.value, ast.Name):
                    raise Unsupported("x = y between names (possible aliasing of a list object)")
                return "(SAssign %d %s)" % (self.var(t.id), self.expr(s.value))
            if isinstance(t, ast.Tuple) and len(t.elts) == 2 and all(isinstance(x, ast.Name) for x in t.elts):
                return "(SUnpack2 %d %d %s)" % (self.var(t.elts[0].id), self.var(t.elts[1].id), self.expr(s.value))
        if isinstance(s, ast.AugAssign) and isinstance(s.target, ast.Name) and type(s.op) in BINOPS:
            return "(SAug %d %s %s)" % (self.var(s.target.id), BINOPS[type(s.op)], self.expr(s.value))
        if isinstance(s, ast.Expr) and isinstance(s.value, ast.Call):
            f = s.value.func
            if isinstance(f, ast.Attribute) and f.attr == "append" and isinstance(f.value, ast.Name) \
                    and len(s.value.args) == 1 and not s.value.keywords:
                a = s.value.args[0]
                if isinstance(a, ast.Name):
                    raise Unsupported("append of a bare name (possible aliasing of a list object)")
                return "(SAppend %d %s)" % (self.var(f.value.id), self.expr(a))
        if isinstance(s, ast.Delete) and len(s.targets) == 1:
            t = s.targets[0]
            if isinstance(t, ast.Subscript) and isinstance(t.value, ast.Name) and not isinstance(t.slice, ast.Slice):
                return "(SDel %d %s)" % (self.var(t.value.id), self.expr(t.slice))
        if isinstance(s, ast.If):
            return "(SIf %s\n %s\n %s)" % (self.expr(s.test), self.block(s.body), self.block(s.orelse))
        if isinstance(s, ast.While) and not s.orelse:
            for n in ast.walk(s):
                if isinstance(n, (ast.Break, ast.Continue)):
                    raise Unsupported("break / continue")
            return "(SWhile %s\n %s)" % (self.expr(s.test), self.block(s.body))
        if isinstance(s, ast.Return) and s.value is not None:
            return "(SReturn %s)" % self.expr(s.value)
        if isinstance(s, ast.Raise) and s.cause is None and s.exc is not None:
            x = s.exc
            if isinstance(x, ast.Call):
                x = x.func
            if isinstance(x, ast.Name) and x.id in EXNS:
                return "(SRaise %s)" % EXNS[x.id]
        if isinstance(s, ast.Assert):
            return "(SAssert %s)" % self.expr(s.test)
        raise Unsupported("statement %s" % ast.dump(s)[:200])


def find_function(tree, name):
    for node in tree.body:
        if isinstance(node, ast.FunctionDef) and node.name == name:
            return node
    raise Unsupported("function %s not found" % name)


def select_fragment(fn, first_assign_to, through_first):
    """the statements of fn's body from the first `first_assign_to = ...` through the first following statement of
    type `through_first` (both at the top level of the body)"""
    body = fn.body
    start = None
    for i, s in enumerate(body):
        if isinstance(s, ast.Assign) and len(s.targets) == 1 and isinstance(s.targets[0], ast.Name) \
                and s.targets[0].id == first_assign_to:
            start = i
            break
    if start is None:
        raise Unsupported("no top-level assignment to %s" % first_assign_to)
    for j in range(start, len(body)):
        if isinstance(body[j], through_first):
            return body[start:j + 1], body[j + 1:]
    raise Unsupported("no %s after the assignment" % through_first.__name__)


# name of the generated term -> (file, function, how to select, parameter names in slot order)
TARGETS = [
    {"term": "slice_list_src", "file": "ndl.py", "function": "slice_list", "whole": True},
    {"term": "bandsample_loop_src", "file": "preprocess.py", "function": "bandsample", "whole": False,
     "first_assign_to": "accumulator", "through_first": ast.While, "params": ["population", "step", "verbose"],
     # the fragment's result is read from this local; what follows the fragment must not touch the sample except
     # through the two statements checked below
     "result": "sample"},
]


def translate_target(pkg, t):
    with open(os.path.join(pkg, t["file"]), encoding="utf-8") as f:
        src = f.read()
    fn = find_function(ast.parse(src), t["function"])
    a = fn.args
    if a.vararg or a.kwarg or a.posonlyargs:
        raise Unsupported("*args / **kwargs / positional-only parameters")
    if t.get("whole"):
        if a.kwonlyargs or a.defaults:
            raise Unsupported("defaults / keyword-only parameters")
        params = [x.arg for x in a.args]
        stmts = fn.body
    else:
        params = t["params"]
        stmts, rest = select_fragment(fn, t["first_assign_to"], t["through_first"])
        # fail closed on the tail: after the loop the function may only build the Counter from `sample` and return it
        tail = [ast.dump(s) for s in rest]
        expect = [ast.dump(s) for s in ast.parse(
            "sample = collections.Counter({key: value for key, value in sample})\nreturn sample").body]
        if tail != expect:
            raise Unsupported("statements after the sampling loop are not `sample = Counter({...}); return sample`")
    tr = Tr(params)
    body = tr.block(stmts)
    return params, tr.vars, body


def main():
    pkg, out = sys.argv[1], sys.argv[2]
    lines = ["(* GENERATED by tools/py2coq.py from the source under %s -- do not edit *)" % pkg,
             "From Coq Require Import ZArith List.", "From PV Require Import MiniPy.", "Import ListNotations.",
             "Local Open Scope nat_scope.", ""]
    report = {}
    for t in TARGETS:
        name = t["term"]
        try:
            params, vars_, body = translate_target(pkg, t)
        except (Unsupported, SyntaxError, OSError) as ex:
            report[name] = {"translated": False, "reason": str(ex)}
            lines += ["(* %s: NOT TRANSLATED: %s *)" % (name, str(ex).replace("*)", "* )")),
                      "Definition %s_translated : bool := false." % name, ""]
            continue
        report[name] = {"translated": True, "variables": vars_, "params": params}
        lines.append("(* %s.%s -> %s; variables: %s *)" % (t["file"], t["function"], name,
                                                           ", ".join("%s=%d" % kv for kv in vars_.items())))
        for v, k in vars_.items():
            lines.append("Definition %s_v_%s : nat := %d." % (name, v.strip("_") or "underscore", k))
        lines.append("Definition %s : pyfun := {| f_params := [%s]; f_body :=\n %s |}." % (
            name, "; ".join(str(vars_[p]) for p in params), body))
        lines += ["Definition %s_translated : bool := true." % name, ""]
    with open(out, "w") as f:
        f.write("\n".join(lines) + "\n")
    json.dump(report, sys.stdout)
    print()


if __name__ == "__main__":
    main()
