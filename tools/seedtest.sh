#!/bin/bash
# usage: tools/seedtest.sh <patch.diff> <ID> [tier]   -- run a check against a scratch copy of /repo with a patch applied
set -e
patch=$(readlink -f "$1"); id=$2; tier=${3:-quick}
d=$(mktemp -d /var/tmp/seedtest.XXXXXX)
trap 'rm -rf "$d"' EXIT
mkdir -p "$d/repo"
rsync -a --exclude .git --exclude '*.so' --exclude build --exclude '*.c' /repo/ "$d/repo/"
(cd "$d/repo" && patch -p1 -s < "$patch")
cd /verif
PV_REPO="$d/repo" PV_EVIDENCE_DIR="$d/evidence" ./check "$id" --tier "$tier" --no-build 2>&1 | grep -E "^VIOLATION|^KNOWN|^violation" | head -5
echo "exit=${PIPESTATUS[0]}"
