#!/usr/bin/env python3
"""Self-test of the translator's fail-closed behaviour: every construct outside the MiniPy fragment must be refused
(no term is emitted), and the two targets of the pinned tree must translate.  usage: tools/test_py2coq.py [pkg dir]"""
import ast
import os
import sys
sys.path.insert(0, os.path.dirname(os.path.abspath(__file__)))
import py2coq

REFUSED = {
    "for loop": "def f(l):\n    for x in l:\n        pass\n",
    "alias of a list": "def f(l):\n    m = l\n    return m\n",
    "append of a bare name": "def f(l, m):\n    l.append(m)\n    return l\n",
    "break": "def f(n):\n    while n < 3:\n        break\n    return n\n",
    "continue": "def f(n):\n    while n < 3:\n        n += 1\n        continue\n    return n\n",
    "while-else": "def f(n):\n    while n < 3:\n        n += 1\n    else:\n        n = 0\n    return n\n",
    "float constant": "def f(n):\n    return n + 0.5\n",
    "f-string": "def f(n):\n    return f'{n}'\n",
    "slice with a step": "def f(l):\n    return l[0:4:2]\n",
    "slice with an omitted bound": "def f(l):\n    return l[1:]\n",
    "unknown call": "def f(l):\n    return sorted(l)\n",
    "method call": "def f(l):\n    l.sort()\n    return l\n",
    "attribute": "def f(l):\n    return l.shape\n",
    "dict literal": "def f():\n    return {}\n",
    "lambda": "def f():\n    return lambda x: x\n",
    "comprehension": "def f(l):\n    return [x for x in l]\n",
    "chain over a call": "def f(l, n):\n    return 0 <= len(l) < n\n",
    "three-way unpacking": "def f(t):\n    a, b, c = t\n    return a\n",
    "try": "def f(n):\n    try:\n        n += 1\n    finally:\n        pass\n    return n\n",
    "with": "def f(p):\n    with open(p) as g:\n        pass\n",
    "raise of an unknown class": "def f():\n    raise RuntimeError('x')\n",
    "power operator": "def f(n):\n    return n ** 2\n",
    "is": "def f(n):\n    return n is None\n",
    "in": "def f(n, l):\n    return n in l\n",
    "starred": "def f(*a):\n    return a\n",
    "default argument": "def f(n=3):\n    return n\n",
    "global": "def f():\n    global x\n    x = 1\n",
    "nested def": "def f():\n    def g():\n        return 1\n    return g()\n",
    "subscript store": "def f(l):\n    l[0] = 1\n    return l\n",
    "del of a name": "def f(l):\n    del l\n",
    "yield": "def f(l):\n    yield l\n",
}


def translate_source(src):
    fn = ast.parse(src).body[0]
    a = fn.args
    if a.vararg or a.kwarg or a.posonlyargs or a.kwonlyargs or a.defaults:
        raise py2coq.Unsupported("parameters")
    tr = py2coq.Tr([x.arg for x in a.args])
    return tr.block(fn.body)


FMT_EDITS = {   # (file, old text, new text): each edited copy of the package must be refused by translate_fmt
    "constant rebound in a function": ("preprocess.py", "def to_bytes(int_):",
                                       "def _x():\n    global MAGIC_NUMBER\n    MAGIC_NUMBER = 1\n\n\ndef to_bytes(int_):"),
    "constant bound twice": ("preprocess.py", "def to_bytes(int_):", "MAGIC_NUMBER = 14159265\n\n\ndef to_bytes(int_):"),
    "constant from a call": ("preprocess.py", "MAGIC_NUMBER = 14159265", "MAGIC_NUMBER = int('14159265')"),
    "byte order from a name": ("preprocess.py", "int_.to_bytes(4, 'little')", "int_.to_bytes(4, sys.byteorder)"),
    "signed keyword": ("preprocess.py", "int_.to_bytes(4, 'little')", "int_.to_bytes(4, 'little', signed=True)"),
    "to_integer on a slice": ("preprocess.py", 'int.from_bytes(byte_, "little")', 'int.from_bytes(byte_[:4], "little")'),
    "to_bytes redefined": ("preprocess.py", "def to_integer(byte_):",
                           "def to_bytes(int_):\n    return int_.to_bytes(4, 'big')\n\n\ndef to_integer(byte_):"),
    "kernel constant rebound": ("ndl_parallel.pyx", "cdef unsigned int CURRENT_VERSION = 2048 + 215",
                                "cdef unsigned int CURRENT_VERSION = 2048 + 215\nCURRENT_VERSION = 7"),
    "kernel constant of another type": ("ndl_parallel.pyx", "cdef unsigned int MAGIC_NUMBER =", "cdef int MAGIC_NUMBER ="),
    "error enum with an expression": ("error_codes.pxd", "    MAGIC_NUMBER_DOES_NOT_MATCH = 1\n    VERSION",
                                      "    MAGIC_NUMBER_DOES_NOT_MATCH = 1 + 1\n    VERSION"),
}


NAMES_EDITS = {   # each edited copy must be refused by translate_names
    "sort by another key": ("ndl.py", "binary_files.sort(key=lambda filename: int(os.path.basename(filename)[9:-4]))",
                            "binary_files.sort(key=len)"),
    "plain sort": ("wh.py", "binary_files.sort(key=lambda filename: int(os.path.basename(filename)[9:-4]))",
                   "binary_files.sort()"),
    "sorted()": ("ndl.py", "binary_files.sort(key=lambda filename: int(os.path.basename(filename)[9:-4]))",
                 "binary_files = sorted(binary_files)"),
    "slice with a name": ("wh.py", "os.path.basename(filename)[9:-4]", "os.path.basename(filename)[PREFIX:-4]"),
    "key without basename": ("ndl.py", "int(os.path.basename(filename)[9:-4])", "int(filename[9:-4])"),
    "two templates": ("preprocess.py", '"events_0_%i.dat" % ii', '("events_0_%i.dat" % ii) if ii else ("events_0_%i.dat" % 0)'),
    "template from a name": ("preprocess.py", '"events_0_%i.dat" % ii', 'TEMPLATE % ii'),
}


def names_selftest(pkg, bad):
    import shutil
    import tempfile
    try:
        py2coq.translate_names(pkg)
    except Exception:      # noqa
        return 0
    n = 0
    for name, (fname, old, new) in NAMES_EDITS.items():
        with open(os.path.join(pkg, fname), encoding="utf-8") as f:
            text = f.read()
        if text.count(old) < 1:
            continue
        d = tempfile.mkdtemp(prefix="py2coq-selftest-")
        try:
            for g in ("preprocess.py", "ndl.py", "wh.py"):
                shutil.copy(os.path.join(pkg, g), d)
            with open(os.path.join(d, fname), "w", encoding="utf-8") as f:
                f.write(text.replace(old, new, 1))
            try:
                py2coq.translate_names(d)
                bad.append("chunk names: %s was accepted" % name)
            except (py2coq.Unsupported, SyntaxError):
                n += 1
        finally:
            shutil.rmtree(d, ignore_errors=True)
    return n


def fmt_selftest(pkg, bad):
    """the format-constant reader refuses edited copies; skipped (0) when the tree under test no longer has the pinned
    shape, in which case translate_fmt itself decides"""
    import shutil
    import tempfile
    try:
        py2coq.translate_fmt(pkg)
    except Exception:      # noqa
        return 0
    n = 0
    for name, (fname, old, new) in FMT_EDITS.items():
        with open(os.path.join(pkg, fname), encoding="utf-8") as f:
            text = f.read()
        if text.count(old) < 1:
            continue
        d = tempfile.mkdtemp(prefix="py2coq-selftest-")
        try:
            for g in ("preprocess.py", "ndl_parallel.pyx", "error_codes.pxd"):
                shutil.copy(os.path.join(pkg, g), d)
            with open(os.path.join(d, fname), "w", encoding="utf-8") as f:
                f.write(text.replace(old, new, 1))
            try:
                py2coq.translate_fmt(d)
                bad.append("format constants: %s was accepted" % name)
            except py2coq.Unsupported:
                n += 1
            except SyntaxError:
                n += 1
        finally:
            shutil.rmtree(d, ignore_errors=True)
    return n


def main():
    bad = []
    for name, src in REFUSED.items():
        try:
            term = translate_source(src)
            bad.append("%s was translated to %s" % (name, term[:80]))
        except py2coq.Unsupported:
            pass
    accepted = "def f(l, n):\n    i = 0\n    out = list()\n    while 0 <= i < len(l) and not i == n:\n        out.append(l[i:i + 1])\n        i += 1\n    return out\n"
    try:
        translate_source(accepted)
    except py2coq.Unsupported as e:
        bad.append("a program inside the fragment was refused: %s" % e)
    pkg = sys.argv[1] if len(sys.argv) > 1 else "/repo/pyndl"
    for t in py2coq.TARGETS:
        try:
            py2coq.translate_target(pkg, t)
        except Exception as e:      # noqa
            bad.append("target %s of %s does not translate: %s" % (t["term"], pkg, e))
    n_fmt = fmt_selftest(pkg, bad)
    n_names = names_selftest(pkg, bad)
    if bad:
        print("\n".join(bad))
        sys.exit(1)
    print("py2coq self-test: %d constructs refused, fragment accepted, %d targets translate; format constants: %d "
          "edited copies refused; chunk names: %d edited copies refused" % (len(REFUSED), len(py2coq.TARGETS), n_fmt, n_names))


if __name__ == "__main__":
    main()
