#!/usr/bin/env python3
"""Confirm a seeded change independently and store it under /verif/seeded/<name>/.
usage: confirm_seed.py <agent_seed_dir> <name> <property>
 - scratch copies of /repo under /var/tmp (removed afterwards)
 - with the patch: build, full test suite must pass, demo must fail
 - without the patch: demo must pass"""
import json, os, shutil, subprocess, sys, tempfile, time

src, name, prop = sys.argv[1], sys.argv[2], sys.argv[3]
PY = "/venv/bin/python"
out = {"property": prop, "name": name}
agent_meta = {}
try:
    agent_meta = json.load(open(os.path.join(src, "meta.json")))
except Exception:
    pass
root = tempfile.mkdtemp(prefix="seedconfirm.", dir="/var/tmp")
try:
    res = {}
    for variant in ("patched", "clean"):
        d = os.path.join(root, variant)
        subprocess.run(["rsync", "-a", "--exclude", ".git", "--exclude", "*.so", "--exclude", "build", "--exclude", "_seeded",
                        "--exclude", "*.c", "/repo/", d + "/"], check=True)
        if variant == "patched":
            r = subprocess.run(["patch", "-p1", "-s", "-i", os.path.join(os.path.abspath(src), "patch.diff")], cwd=d,
                               capture_output=True, text=True)
            res["patch_applies"] = r.returncode == 0
            if r.returncode != 0:
                res["patch_output"] = r.stdout + r.stderr
                break
        r = subprocess.run([PY, "build.py"], cwd=d, capture_output=True, text=True)
        res[variant + "_builds"] = r.returncode == 0
        env = dict(os.environ, PYTHONPATH=d, PYTHONDONTWRITEBYTECODE="1")
        if variant == "patched":
            t0 = time.time()
            r = subprocess.run([PY, "-m", "pytest", "-q", "-p", "no:cacheprovider", "--timeout=900", "-x"], cwd=d, env=env,
                               capture_output=True, text=True)
            tail = r.stdout.strip().splitlines()[-1] if r.stdout.strip() else ""
            res["tests_with_patch"] = tail
            res["tests_pass_with_patch"] = r.returncode == 0
        try:
            r = subprocess.run([PY, os.path.join(os.path.abspath(src), "demo.py")], cwd=root, env=env, capture_output=True,
                               text=True, timeout=400)
            res["demo_%s_exit" % variant] = r.returncode
            res["demo_%s_tail" % variant] = (r.stdout + r.stderr).strip()[-400:]
        except subprocess.TimeoutExpired:
            res["demo_%s_exit" % variant] = "timeout"
    ok = (res.get("patch_applies") and res.get("tests_pass_with_patch") and res.get("demo_patched_exit") not in (0, None)
          and res.get("demo_clean_exit") == 0)
    out.update({"confirmed": bool(ok), "confirmation": res, "agent_meta": agent_meta,
                "needs_to_manifest": agent_meta.get("needs_to_manifest"), "summary": agent_meta.get("summary")})
    dst = os.path.join("/verif/seeded", name)
    if ok:
        os.makedirs(dst, exist_ok=True)
        shutil.copy(os.path.join(src, "patch.diff"), dst)
        shutil.copy(os.path.join(src, "demo.py"), dst)
        json.dump(out, open(os.path.join(dst, "meta.json"), "w"), indent=1)
    print(json.dumps({"name": name, "confirmed": bool(ok), "res": {k: v for k, v in res.items() if "tail" not in k}}))
finally:
    shutil.rmtree(root, ignore_errors=True)
