#!/usr/bin/env python3
"""Regenerates /verif/MANIFEST.json from the table below (one entry per built check)."""
import json
import os

VERIF = os.path.dirname(os.path.dirname(os.path.abspath(__file__)))

NOTE = ("Trusted: Coq 8.16.1 kernel + vm_compute (no native_compute); every theorem in coq/theories/Props/<id>.v is "
        "closed under the global context unless its evidence lists axioms; extraction with ExtrOcamlBasic only; "
        "harness (generators, encoders, Fraction(float) comparison). The deciding models are written by hand: the "
        "tie to /repo is the differential correspondence run of this check on a fresh scratch build of /repo's working tree; "
        "for ndl.slice_list (C02) and the sampling loop of bandsample (C20) a fail-closed translator (tools/py2coq.py) "
        "additionally turns the current source into a MiniPy term and the theorems about that term are re-checked on "
        "every run; C02/C08/C18 check the sharing attributes of the OpenMP loops in the generated C.")

CHECKS = {
 "C01": ("proof", "Theorems C01_dict / C01_kernel / C01_parallel_threading / C01_parallel_openmp / C01_policies / "
         "C01_documented_rule: the executable models of dict_ndl, of the compiled kernel on flat 64-bit indexed memory "
         "and of both parallel back ends under every interleaving compute RWSpec.learn for all event sequences, all "
         "parameters of an arbitrary commutative ring and all duplicate policies. Correspondence X-rw-dict/X-rw-par/"
         "X-rw-kernel compares every returned cell (read through the returned labels) with the model's exact rational.",
         "5 shared core, C01", "Coq proof (refinement to RW spec) + exact-rational differential correspondence"),
 "C02": ("proof", "Theorems C02_threading_schedule_independent / C02_openmp_schedule_independent: for EVERY interleaving of "
         "the work items' atomic row updates (threading: items complete all files; OpenMP: barrier per chunk file, parts "
         "computed in 32-bit arithmetic) every trained row holds the sequential Rescorla-Wagner result and every other cell "
         "is untouched; C02_slice_list_partition, C02_omp_parts_partition; the work-queue transition system: for every "
         "schedule no thread blocks in get() (C02_queue_never_blocks), items are conserved and each is worked exactly once "
         "(C02_queue_exactly_once, C02_queue_all_done_all_items), every run ends within 5*items+3*threads moves "
         "(C02_queue_terminates), with the unlocked contrast refuted; the product machine of queue protocol and per-item work "
         "loops (QueueTrace): for every schedule the performed actions are per item a prefix of its program order, with all "
         "threads done they form an interleaving (C02_workers_trace_interleaving), bounded work (C02_workers_terminate), and "
         "end to end C02_threading_workers_end_to_end / C02_openmp_workers_end_to_end: whatever the schedule of the threads' "
         "steps, the memory holds the sequential result. Correspondence X-sched-det: the real worker loop of ndl.ndl driven "
         "turn by turn by chosen schedules, step-aligned with the Coq machine (model 205) or, when the code does not follow the "
         "lock protocol, with the machine of the lock-free protocol (QueueNowait, model 206: get_nowait until queue.Empty; "
         "C02_nowait_is_a_lock_run transfers every for-all-schedules theorem, C02_nowait_quiet / _take_is_atomic show the "
         "machine is the intended one, C02_nowait_workers_end_to_end). Partial: real preemption, the GIL, "
         "libgomp and the memory model are observed (amplified runs + deadline), not modelled. Source-derived: "
         "SRC_slice_list_computes_model / _partition / _rejects_small_n about the MiniPy term translated from the current "
         "source of ndl.slice_list. Checked assumption: every variable the prange loop of the generated C writes is private.",
         "5 C02", "Coq proof (interleaving/row-locality, queue invariant, product machine, termination measure; source-derived theorems re-checked against the translated source) + schedule-controlled step-aligned correspondence + OpenMP sharing analysis of the generated C + amplified differential runs"),
 "C03": ("proof", "Theorems C03_learn_split, C03_chain (any k-way split = one pass, by induction on the chain), "
         "C03_dict_run_app / C03_dict_continue (dict_ndl from any weights it can be handed, lazily created rows), "
         "C03_kernel_continue / C03_kernel_from_any_weights (the kernel computes learn from ANY initial memory), "
         "C03_labelling_irrelevant (old labels first, new ones appended in any order: any injective numbering gives the same "
         "name-level weights). Correspondence X-continue: chains over all legal hand-overs and split positions vs the model "
         "of the whole sequence. Non-mutation of the weights argument is an aliasing fact: monitored on every chain step, "
         "not proved. Widrow-Hoff: C03_wh_{r2r,r2b,b2r}_chain and C03_wh_*_kernel_continue (the three flavours, rule and "
         "kernel models); alignment of handed-over weights by dimension name is exercised by WH chains with permuted "
         "vector tables (C03 and C08).",
         "5 C03", "Coq proof (fold/append, refinement from arbitrary start state) + chained differential runs + argument snapshots"),
 "C07": ("proof", "Theorems C07_split_join / C07_join_split / C07_join_nil_is_empty_name, C07_read_write (+_slice, _container): "
         "parse_file (write_file c es) = es for both values of compatible and every container form; C07_frequency (+_copies, "
         "_zero, _numerals, _counts): a frequency column means that many copies for reading and counting; C07_input_form: any "
         "function of the events (learning) gives the same result on the spooled file. Correspondence X-text: writer and reader "
         "code point for code point over all Unicode planes, hand-written frequency files, cues_outcomes, and the learners "
         "given path string / path object / generator / iterable compared exactly.",
         "5 C07", "Coq proof (split/join round trip, reader state machine) + exact differential correspondence"),
 "C08": ("proof", "Theorems C08_r2r / C08_r2b / C08_b2r: the loop-faithful models of the three Widrow-Hoff kernels on flat 64-bit "
         "indexed memory compute the delta rule (WHSpec: x = sum of cue vectors or the multiplicity vector, t = sum of outcome "
         "vectors or lambda*presence with betas) on exactly the trained rows, for every ring, table, eta; C08_*_any_schedule: "
         "for ANY partition of the rows and ANY interleaving (generic row-wise theory RowWise.v). The numpy method and dict_wh "
         "are compared with the same model on single-cue/single-outcome events. Correspondence X-wh incl. same-flavour "
         "continuation chains (also with permuted dimension columns; the WH half of C03). C08_*_workers_end_to_end: the "
         "worker threads of the parallel region produce such an interleaving for every schedule. Checked assumption: every "
         "variable the three prange loops of the generated C write is private.",
         "5 C08", "Coq proof (generic row-local kernels, interleaving theorem) + exact-rational differential correspondence + OpenMP sharing analysis of the generated C"),
 "C14": ("proof", "Theorems C14_b2r_onehot / C14_r2b_onehot / C14_r2r_onehot: with one-hot tables given by injective maps the "
         "Widrow-Hoff rule read through the dimension renaming equals RWSpec.learn with alpha=1, beta1=beta2=eta, lambda=1 "
         "(cue repetitions allowed, outcomes unique per event - the necessity of that hypothesis is shown by an example); "
         "C14_{b2r,r2b,r2r}_kernels_agree: the same between the loop-faithful kernel models on flat memory. The "
         "check compares wh.wh against ndl.ndl on the same file (real code on both sides, all flavours/methods/row orders, "
         "> 10 chunks) and runs reduced X-wh / X-rw correspondences through which the theorems transfer.",
         "5 C14", "Coq proof (one-hot sums, induction on events) + wh-vs-ndl runs of the real code + reduced correspondences"),
 "C09": ("proof", "Theorems C09_state_machine_eq_spec / C09_lines_eq_spec (the loop-faithful model of create_event_file, incl. the "
         "captured-marker quirk of re.split, equals the documented windowing spec for every corpus, oracle and option "
         "combination), C09_no_context_bleeding, C09_window_within_one_document, C09_windows_consecutive_char, C09_ngrams_*, "
         "C09_callable_eq_regex, C09_never_overwrites. Oracles (str.lower, isspace, allowed set) are universally quantified "
         "in the theorems and tabulated with CPython at run time. Correspondence X-window over all 216 option cells.",
         "5 C09", "Coq proof (state machine = declarative spec) + line-exact differential correspondence"),
 "C10": ("proof", "Theorems C10_imap_chunked_eq_map / C10_imap_pool_eq_map (every chunk size, every completion order of the pool "
         "tasks), C10_filter_eq_filter_map, C10_dropped_iff_no_cue_left, C10_outcome_less_kept, C10_keep_eq_remove_complement, "
         "C10_identity_map_eq_keep, C10_keep/remove/line/file_idempotent, with refuted contrasts (imap_unordered, identity map "
         "containing '', rename rules). Correspondence X-filter: output text code point for code point, the four laws on the "
         "real outputs, every chunk size and n_jobs giving identical bytes.",
         "5 C10", "Coq proof (filter_map, chunking, idempotence through parse/format) + exact differential correspondence"),
 "C11": ("proof", "Theorems C11_strided_slices_partition (Permutation, every n >= 1 also n > len), C11_cues_outcomes / "
         "C11_words_symbols (merged counters and n_events = direct count of the frequency-expanded file for every process "
         "count; raises exactly when the sequential read raises), *_n_jobs_irrelevant. Correspondence X-count: event and corpus "
         "files incl. empty ones, n_jobs 1..32, lower_case, exact Counter comparison with the model and across n_jobs.",
         "5 C11", "Coq proof (strided partition, counter merge) + exact differential correspondence"),
 "C15": ("proof", "Theorems C15_create_output_wellformed (+_events, _lines_are_event_lines: every line the creation model writes is a "
         "well-formed event line, for every corpus/option/oracle under explicit oracle hypotheses that the harness checks on "
         "its tables and by a full-Unicode scan), C15_filter_preserves_wellformed / C15_filter_stage, C15_stage_roundtrip "
         "(reader = denotation of the written token lists, [''] for an empty outcome field), C15_checked_file_parses, "
         "C15_pipeline (creation -> filter -> reader; counts via C11; learners via C01: C15_*_learn; numbering and token order "
         "irrelevant), with refuted lemmas delimiting the hypotheses. Correspondence X-pipeline: ~960 end-to-end pipelines per "
         "quick run, every stage's file against its model, learners as exact rationals, activations recomputed exactly. The "
         "listed finding (label ending in U+0000) is exercised by one dedicated case and printed as KNOWN-FINDING.",
         "5 addendum C15", "Coq proof (composition of the stage models, bridging lemmas) + stage-by-stage differential correspondence"),
 "C16": ("proof", "Theorems C16_entries (k calls -> exactly k ' | '-separated entries per attribute, in call order), C16_mixed_keys, "
         "C16_number_events (+_sources: chunk jobs, asserted count and loop counter all equal the expanded event count), "
         "C16_parameters, C16_attrs_are_strings, C16_split_join, with refuted lemmas delimiting the hypotheses (late keys, "
         "separator inside a path, non-Python-number alpha). netCDF serialisation is a library: modelled as the identity and "
         "CHECKED (values bit-identical, labels, attrs, continuation from the loaded array), not proved - partial for that half.",
         "5 C16", "Coq proof (attribute accumulation, split/join) + exact differential correspondence + netCDF round-trip check"),
 "C20": ("proof", "Theorems C20_band_fuel_sufficient (termination: the out-of-fuel branch is unreachable), C20_band_subset / "
         "_members / _words_distinct, C20_band_size (|sample| <= sample_size, invariant on the accumulator, proven in full), "
         "C20_counter_roundtrip (+_map), with refuted lemmas for zero frequencies and dirty keys. Correspondence X-band: the "
         "shuffle is pinned from the test side; exact sample equality when the step is a dyadic double, the four predicates on "
         "every case; counter files incl. the '' key. Source-derived: SRC_bandsample_loop_computes_model / _terminates about the "
         "MiniPy term translated from the current source of the sampling loop (it computes Band.band_loop and ends within "
         "3*len+2 iterations for every population).",
         "5 C20", "Coq proof (loop invariant, termination measure, text round trip; source-derived theorems re-checked against the translated source) + differential correspondence with pinned shuffle"),
 "C12": ("proof", "Theorems C12_matrix (every cell = RWSpec.act of the labelled weights over the prepared cues: each cue once "
         "under True/None, with multiplicity under False, empty set -> 0; for 1 process and ANY pool run), C12_paths_agree / "
         "C12_paths_agree_dict, C12_missing_cue / C12_first_bad_event / C12_dict_errors (which exception, when), "
         "C12_multiplicity, C12_set_order, C12_one_step (step - W = alpha*beta*(target - activation) for present cues). "
         "Correspondence X-act: families of the same weights through all layouts (C, Fortran, transposed/strided views), "
         "n_jobs 1..6, dict/WeightDict twins, the policy x ignore grid, compared exactly; the real one-step experiment "
         "through dict_ndl and both parallel learners.",
         "5 addendum C12", "Coq proof (sums over prepared cues, pool runs as permutations) + exact differential correspondence"),
 "C13": ("proof", "Theorems C13_row_locality, C13_equivariance, C13_cue_order, C13_affine_in_W0, C13_learn0_additive, "
         "C13_proportional_to_lambda, C13_beta2_zero_absent_rows_fixed, C13_alpha_zero_column_fixed for RWSpec.learn over "
         "every commutative ring. The check evaluates each law as a relation between runs of the real learners and runs "
         "a reduced learner=model correspondence through which the theorems transfer.",
         "5 C13", "Coq proof (ring algebra, induction on events) + metamorphic relations on the real learners"),
 "C04": ("proof", "Theorems about the submit loop of create_binary_event_files as a transition system: for EVERY schedule of "
         "submissions and deliveries (any number of workers, any per-job delay) the finished call reports exactly n events "
         "(C04_reports_all_events) and terminates: at most n/per + 4*n_jobs jobs are submitted, a measure decreases with "
         "every step and some step is enabled while the call has not returned (C04_conversion_terminates, "
         "C04_protocol_terminates; in particular for exact multiples, whose pre-repair logic is proved to hang for every "
         "schedule: C04_exact_multiple_hangs); chunk k holds exactly events k*per..(k+1)*per-1 (C04_job_file), chunks in "
         "numeric order concatenate to the file (C04_chunks_concat), int(str(i)) = i and the numeric sort restores the order "
         "from any directory listing while the lexicographic one fails from 11 chunks on. Correspondence X-proto-det: the real "
         "submit loop, jobs and callbacks driven entry by entry by chosen schedules, step-aligned with Proto.pstep (model "
         "402); correspondence X-chunk with "
         "permuted completion order, amplified submit/close race, frequency columns, deadline. Source-derived (lenient): "
         "SRC_names_sort_key_inverts_writer_name and 3 more about the chunk-name template of preprocess.py and the sort-key slice "
         "of every sort site of ndl.py / wh.py as the current text has them. Partial: real timing is "
         "a deadline.",
         "5 C04", "Coq proof (protocol invariant + termination measure over all schedules, window/concat lemmas) + schedule-controlled step-aligned correspondence + differential runs under a deadline"),
 "C18": ("proof", "Theorems C18_cov_identity, C18_pearson / C18_pearson_r2 (square-root free characterisation of Pearson's r over "
         "the rationals: no real-number axioms), C18_cell_local, C18_omp_chunks_partition, C18_schedule_independent (every cell "
         "written exactly once for every chunk size, thread count and interleaving), C18_degenerate (+_which, zero/NaN "
         "deviation iff constant/NaN column). Correspondence X-corr: the kernel called directly with dyadic statistics "
         "(exact), the wrapper on integer matrices incl. small-magnitude columns (r^2 within 1e-12 of the exact value, sign, "
         "cross-check against the reference), all layouts, n_jobs 1..32, chunksize 1..50, degenerate columns at every "
         "position; the same array objects used before with other contents. Checked assumption: every variable the prange "
         "loop of the generated C writes is private. Partial: numpy mean/std and NaN propagation are trusted.",
         "5 C18", "Coq proof (field algebra over Qc, partition of the event range) + exact / tight-tolerance differential correspondence + OpenMP sharing analysis of the generated C"),
 "C19": ("proof", "Theorems C19_sort_perm_invariant / C19_walk_order_irrelevant, C19_cleaning, C19_imap_ordered (every worker "
         "count and pool schedule delivers in task order), C19_output, C19_missing_recorded, C19_never_overwrites, with the "
         "pre-repair logic refuted (C19_missing_crashes_refuted). gzip/ElementTree are oracles: the harness writes the XML. "
         "Correspondence X-corpus: generated subtitle trees, dangling links, n_threads 1..6, byte-exact output and .not_found.",
         "5 C19", "Coq proof (sort invariance, ordered imap state machine) + byte-exact differential correspondence"),
 "C05": ("proof", "Theorems C05_conversion_fault_raises (a failing conversion job at ANY chunk position, every order of "
         "submissions and deliveries: the finished call raises), C05_conversion_fault_terminates (bounded work and progress: it "
         "never blocks), C05_thread_errors_raised (worker-thread exceptions are raised by the call), C05_failed_phase_raises / "
         "C05_returns_only_if_all_phases_ok, C05_dict_duplicate_raises, with the pre-repair logic refuted "
         "(C05_error_in_handler_blocks_refuted, C05_thread_errors_swallowed_refuted); the worker-thread machine with failing "
         "actions (QueueFaults): for every schedule C05_threading_returns_only_if_no_failure, C05_threading_failure_raises, "
         "C05_threading_faults_terminate. Correspondences X-sched-det / X-proto-det (failing kernel calls / failing conversion "
         "jobs under chosen schedules, step-aligned with the Coq machines); correspondence X-fault: 8 learners x fault "
         "kinds x positions x swept byte budgets under a deadline. Partial: 'bounded time' is a step bound in the model and a "
         "deadline in the run; the Pool/thread semantics are assumptions validated by the runs.",
         "5 C05", "Coq proof (protocol invariant under faults, worker machine with failing actions, termination measures) + schedule-controlled step-aligned correspondence + fault injection runs under a deadline"),
 "C17": ("proof", "Theorems C17_bracket_restores (a TemporaryDirectory block restores the file system for every body and every "
         "failure point), C17_learner_clean (generator input: spool and chunk directories, both stages, every failure point), "
         "C17_generator_leaks_refuted (pre-repair). Correspondence X-tmp: the whole C05 call matrix incl. generator input and "
         "failing generators: recursive listings of the given and the system temporary directory before/after, sha256 of the "
         "input. Partial: the file system, rmtree and terminate/rmtree races are observed, not modelled.",
         "5 C17", "Coq proof (bracket structure over all failure points) + directory listings / input hash around every call"),
 "C06": ("proof", "Theorems C06_decode_encode, C06_kernel_reads_same (buffer re-allocation invariant, any ids per event), "
         "C06_bad_header_rejected / C06_good_chunks_accepted (any position in any chunk list), C06_flat_index_no_wrap / "
         "_injective (matrices with more than 2^32 cells), refuted variants for the pre-repair logic. Correspondence "
         "X-binfmt: writer bytes, reader, five entry points, bad header at every position of 1..4 chunks. Source-derived: "
         "SRC_fmt_constants_are_model / _to_bytes_is_model / _python_roundtrip / _kernel_reads_what_python_writes (10 theorems) "
         "about MAGIC_NUMBER, CURRENT_VERSION, to_bytes, to_integer and the error codes as read from the current text of "
         "preprocess.py, ndl_parallel.pyx and error_codes.pxd, re-checked on every run (strict: a failure without a failing input is "
         "reported as no-failing-input-found); 3 lenient theorems about the structure of the readers in the text (canonical header "
         "check in every kernel, fread/read widths, buffer capacities).",
         "5 C06", "Coq proof (codec round-trip, header decision; source-derived theorems re-checked against the constants and word helpers translated from the current source) + byte-exact differential correspondence"),
}


def main():
    path = os.path.join(VERIF, "MANIFEST.json")
    m = json.load(open(path))
    props = [json.loads(l) for l in open(os.path.join(VERIF, "properties.jsonl"))]
    checks, na = [], []
    for p in props:
        pid = p["id"]
        if pid in CHECKS and os.path.exists(os.path.join(VERIF, "harness", "props", pid.lower() + ".py")):
            cat, text, ref, tech = CHECKS[pid]
            checks.append({
                "property_id": pid,
                "quick_cmd": "./check %s --tier quick" % pid,
                "thorough_cmd": "./check %s --tier thorough" % pid,
                "evidence_file": "/verif/evidence/%s.json" % pid,
                "replay_cmd_template": "./check %s --replay {path}" % pid,
                "engine": "coq-proof+correspondence",
                "level_claimed": {"category": cat, "text": text, "design_ref": "DESIGN.md section " + ref},
                "level_note": NOTE,
                "technique": tech,
            })
        else:
            na.append({"property_id": pid,
                       "reason": "check under construction in this round (design in DESIGN.md section 5); not claimed yet"})
    m["checks"] = checks
    m["not_applicable"] = na
    m["engines"] = [{"name": "coq-proof+correspondence", "path": "/verif/check",
                     "serves_properties": [c["property_id"] for c in checks],
                     "kind_free_text": "Coq 8.16 theorems about hand-written executable Gallina models (coq/theories), "
                                       "extracted to OCaml and run against a scratch rebuild of /repo on generated cases"}]
    json.dump(m, open(path, "w"), indent=1)
    print("checks:", [c["property_id"] for c in checks])


if __name__ == "__main__":
    main()
