#!/bin/bash
# Build everything the checks need, offline, from files on disk only:
#  - full .vo build of the Coq development (no -vos/-vok)
#  - extraction (ExtrOcamlBasic only) and the OCaml driver
set -e
cd "$(dirname "$0")"
cd coq
{ echo "-Q theories PV"; echo "-arg -w -arg -notation-overridden,-deprecated-hint-without-locality,-deprecated-instance-without-locality"; \
  find theories -name '*.v' ! -name Extract.v | LC_ALL=C sort; } > _CoqProject.new
if ! cmp -s _CoqProject.new _CoqProject || [ ! -f Makefile.coq ]; then
  mv _CoqProject.new _CoqProject
  coq_makefile -f _CoqProject -o Makefile.coq >/dev/null
else
  rm -f _CoqProject.new
fi
timeout 3000 make -f Makefile.coq -j16 2>&1 | grep -v '^COQC\|^COQDEP\|^CLEAN' || true
# make's own status (grep hides it)
timeout 3000 make -f Makefile.coq -j16 >/dev/null
cd ../ocaml
if [ ! -x pvmodels ] || [ -n "$(find ../coq/theories -name '*.vo' -newer pvmodels 2>/dev/null | head -1)" ] || [ driver.ml -nt pvmodels ]; then
  timeout 600 coqc -Q ../coq/theories PV ../coq/theories/Extract.v >/dev/null
  ocamlfind ocamlopt -package zarith -linkpkg -O3 -w -a models.mli models.ml driver.ml -o pvmodels.tmp
  mv pvmodels.tmp pvmodels
fi
echo "setup ok"
